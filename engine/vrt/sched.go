// Package vrt is the runtime of E3 (vsched): a deterministic, sequentially consistent scheduler
// with a virtual clock for Go code whose synchronisation has been rewritten by tools/vinstr to
// call into this package. Exactly one registered thread runs at a time; every other one is
// parked on its own resume channel. All nondeterminism (which thread runs, which ready select
// case is taken, when a timer fires relative to runnable threads, environment choices) is a
// recorded choice that the explorer owns.
//
// The model follows the Go runtime's own algorithms (see DESIGN.md, appendix A): an operation is
// entered at a scheduling point; if it cannot complete it parks on FIFO wait queues and is later
// completed by the waker as part of the waker's step (direct hand-off, commit on wake).
package vrt

import (
	"fmt"
	"runtime"
	"sort"
	"strings"
	"time"
)

// Kinds of choice points (each has its own deviation bound in the explorer).
const (
	KThread = iota // which runnable thread runs next
	KSelect        // which ready select case
	KTimer         // fire the earliest timer although threads are runnable
	KEnv           // environment choice made by the scenario (vrt.Choose)
	nKinds
)

var KindNames = []string{"thread", "select", "timer", "env"}

// Point is one recorded choice.
type Point struct {
	Kind    int
	N       int  // number of alternatives
	Chosen  int  // index taken
	Preempt bool // alternative 0 was "continue the running thread" (so any other choice preempts)
	Label   string
}

type tstate int

const (
	tsRunnable tstate = iota
	tsBlocked
	tsDone
)

type thread struct {
	id      int
	name    string
	resume  chan struct{}
	state   tstate
	waitOn  string
	started bool
	fn      func()
	// result of a parked operation, filled in by the waker
	wakeIdx   int
	wakeVal   any
	wakeOK    bool
	wakePanic string
	sleeping  *timerEnt
}

// Verdicts of one execution.
type Result struct {
	Points    []Point
	Steps     int
	Deadlock  string   // non-empty: no runnable thread, no timer, unfinished threads (with what they wait on)
	Panics    []string // panics in threads (message + first frames)
	Failures  []string // scenario assertions (vrt.Fail)
	Leaked    []string // threads alive after the settle period
	Horizon   string   // step / time cap hit
	EndTime   time.Duration
	RootEnd   time.Duration
	TraceHash uint64
	Diverged  string // replay prefix did not fit
	Threads   int
	Outcome   string // scenario-provided abstract outcome (vrt.Outcome)
	Log       []string
}

type abortT struct{}

// Sched is one execution.
type Sched struct {
	threads     []*thread
	cur         *thread
	ctl         chan struct{} // thread -> controller: "I stopped running"
	now         int64
	timers      []*timerEnt
	timerSeq    int
	chans       map[uintptr]*vchan
	prefix      []int
	res         Result
	aborting    bool
	rootDone    bool
	rootEnd     int64
	cfg         Config
	hash        uint64
	logOn       bool
	idleWaiters []*thread
}

// Config bounds one execution.
type Config struct {
	MaxSteps        int           // scheduling steps
	MaxTime         time.Duration // virtual time
	Settle          time.Duration // virtual time the world may keep running after the root thread returned
	MaxEarly        time.Duration // how far ahead of the clock a timer may be fired while threads are runnable (default 2s)
	NoReleasePoints bool          // do not make Unlock / Done / close scheduling points (fewer interleavings)
	Trace           bool
}

var S *Sched // the execution in progress (one per process at a time)

var base = time.Date(2030, 1, 1, 0, 0, 0, 0, time.UTC)

func (s *Sched) mix(v uint64) {
	s.hash ^= v + 0x9e3779b97f4a7c15 + (s.hash << 6) + (s.hash >> 2)
}

func (s *Sched) mixs(str string) {
	var h uint64 = 14695981039346656037
	for i := 0; i < len(str); i++ {
		h = (h ^ uint64(str[i])) * 1099511628211
	}
	s.mix(h)
}

// Run executes scenario under the scheduler, replaying prefix and taking alternative 0 afterwards.
func Run(cfg Config, prefix []int, scenario func()) *Result {
	if cfg.MaxSteps == 0 {
		cfg.MaxSteps = 200000
	}
	if cfg.MaxTime == 0 {
		cfg.MaxTime = time.Hour
	}
	if cfg.Settle == 0 {
		cfg.Settle = 30 * time.Second
	}
	if cfg.MaxEarly == 0 {
		cfg.MaxEarly = 2 * time.Second
	}
	s := &Sched{ctl: make(chan struct{}), chans: map[uintptr]*vchan{}, prefix: prefix, cfg: cfg}
	S = s
	root := s.newThread("root", func() {
		scenario()
		s.rootDone = true
		s.rootEnd = s.now
	})
	_ = root
	s.loop()
	s.res.EndTime = time.Duration(s.now)
	s.res.RootEnd = time.Duration(s.rootEnd)
	s.res.TraceHash = s.hash
	s.res.Threads = len(s.threads)
	s.abortAll()
	S = nil
	return &s.res
}

func (s *Sched) newThread(name string, fn func()) *thread {
	t := &thread{id: len(s.threads), name: name, resume: make(chan struct{}), state: tsRunnable, fn: fn}
	s.threads = append(s.threads, t)
	return t
}

// start launches the goroutine of a thread at its first scheduling.
func (s *Sched) start(t *thread) {
	t.started = true
	go func() {
		<-t.resume
		defer func() {
			if p := recover(); p != nil {
				if _, ok := p.(abortT); !ok {
					s.res.Panics = append(s.res.Panics, fmt.Sprintf("thread %d (%s): panic: %v @ %s", t.id, t.name, p, frames()))
				}
			}
			t.state = tsDone
			s.ctl <- struct{}{}
		}()
		if s.aborting {
			panic(abortT{})
		}
		t.fn()
	}()
}

func frames() string {
	buf := make([]byte, 8192)
	n := runtime.Stack(buf, false)
	var out []string
	for _, l := range strings.Split(string(buf[:n]), "\n") {
		l = strings.TrimSpace(l)
		if strings.Contains(l, ".go:") && !strings.Contains(l, "/zzverif/vrt/") && !strings.Contains(l, "/zzverif/vsync/") && !strings.Contains(l, "/zzverif/vatomic/") && !strings.Contains(l, "/src/runtime/") {
			if i := strings.Index(l, " "); i > 0 {
				l = l[:i]
			}
			if i := strings.LastIndex(l, "/"); i > 0 {
				if j := strings.LastIndex(l[:i], "/"); j > 0 {
					l = l[j+1:]
				}
			}
			out = append(out, l)
			if len(out) == 4 {
				break
			}
		}
	}
	return strings.Join(out, " < ")
}

// decide takes the next choice (from the prefix, else 0) and records it.
func (s *Sched) decide(kind, n int, preempt bool, label string) int {
	if n <= 1 {
		return 0
	}
	c := 0
	i := len(s.res.Points)
	if i < len(s.prefix) {
		c = s.prefix[i]
		if c >= n {
			if s.res.Diverged == "" {
				s.res.Diverged = fmt.Sprintf("choice %d of the replayed prefix is %d but only %d alternatives exist (%s)", i, c, n, label)
			}
			c = 0
		}
	}
	s.res.Points = append(s.res.Points, Point{Kind: kind, N: n, Chosen: c, Preempt: preempt, Label: label})
	s.mix(uint64(kind)<<32 | uint64(n)<<16 | uint64(c))
	return c
}

func (s *Sched) loop() {
	for {
		s.res.Steps++
		if s.res.Steps > s.cfg.MaxSteps {
			s.res.Horizon = fmt.Sprintf("step cap %d", s.cfg.MaxSteps)
			return
		}
		var run []*thread
		alive := 0
		for _, t := range s.threads {
			if t.state == tsRunnable {
				run = append(run, t)
			}
			if t.state != tsDone {
				alive++
			}
		}
		if alive == 0 {
			return
		}
		if s.rootDone && time.Duration(s.now-s.rootEnd) > s.cfg.Settle {
			for _, t := range s.threads {
				if t.state != tsDone {
					s.res.Leaked = append(s.res.Leaked, fmt.Sprintf("thread %d (%s) %s", t.id, t.name, t.waitOn))
				}
			}
			return
		}
		if len(run) == 0 && len(s.timers) == 0 && len(s.idleWaiters) > 0 {
			// nothing can happen any more: release the threads waiting for exactly that
			for _, t := range s.idleWaiters {
				s.wake(t)
			}
			s.idleWaiters = nil
			continue
		}
		if len(run) == 0 {
			if len(s.timers) == 0 {
				if s.rootDone {
					// nothing can ever happen again: what is left is leaked
					for _, t := range s.threads {
						if t.state != tsDone {
							s.res.Leaked = append(s.res.Leaked, fmt.Sprintf("thread %d (%s) %s", t.id, t.name, t.waitOn))
						}
					}
					return
				}
				var w []string
				for _, t := range s.threads {
					if t.state == tsBlocked {
						w = append(w, fmt.Sprintf("thread %d (%s) blocked on %s", t.id, t.name, t.waitOn))
					}
				}
				s.res.Deadlock = strings.Join(w, "; ")
				if s.cfg.Trace {
					buf := make([]byte, 1<<20)
					n := runtime.Stack(buf, true)
					s.res.Log = append(s.res.Log, "ALL STACKS AT DEADLOCK:\n"+string(buf[:n]))
				}
				return
			}
			if !s.fireNext() {
				// virtual time cap: say who was still waiting (a scenario that should have
				// finished long before can judge this as "a call never returned")
				var w []string
				for _, t := range s.threads {
					if t.state == tsBlocked {
						w = append(w, fmt.Sprintf("thread %d (%s) blocked on %s", t.id, t.name, t.waitOn))
					}
				}
				s.res.Horizon += "; " + strings.Join(w, "; ")
				return
			}
			continue
		}
		// canonical order: running thread first if still runnable, then ascending ids
		sort.Slice(run, func(i, j int) bool { return run[i].id < run[j].id })
		preempt := false
		if s.cur != nil && s.cur.state == tsRunnable {
			for i, t := range run {
				if t == s.cur {
					copy(run[1:i+1], run[:i])
					run[0] = s.cur
					preempt = true
				}
			}
		}
		n := len(run)
		if len(s.timers) > 0 && time.Duration(s.timers[0].when-s.now) <= s.cfg.MaxEarly {
			// Early firing models threads that are slow relative to a timer; it is only offered for
			// timers due within MaxEarly, so that an execution never starves runnable threads for
			// longer than that (time-bound oracles allow for this slack).
			// separate binary choice so that thread and timer deviations are bounded independently
			if s.decide(KTimer, 2, false, "") == 1 {
				if !s.fireNext() {
					return
				}
				continue
			}
		}
		c := 0
		if n > 1 {
			c = s.decide(KThread, n, preempt, "")
		}
		t := run[c]
		s.cur = t
		s.mix(uint64(t.id) + 1000)
		if !t.started {
			s.start(t)
		}
		t.resume <- struct{}{}
		<-s.ctl
	}
}

// yield hands control to the controller and waits to be resumed.
func (s *Sched) yield(t *thread) {
	s.ctl <- struct{}{}
	<-t.resume
	if s.aborting {
		panic(abortT{})
	}
}

// point: the running thread is at the entry of a visible operation.
func (s *Sched) point(label string) *thread {
	t := s.cur
	if s.aborting {
		panic(abortT{})
	}
	if s.cfg.Trace {
		s.res.Log = append(s.res.Log, fmt.Sprintf("t%d %s", t.id, label))
	}
	s.mixs(label)
	t.waitOn = label
	s.yield(t)
	return t
}

// block parks the running thread until another step makes it runnable again.
func (s *Sched) block(t *thread, on string) {
	t.state = tsBlocked
	t.waitOn = on
	if s.cfg.Trace {
		t.waitOn = on + " @ " + frames()
	}
	s.yield(t)
}

func (s *Sched) wake(t *thread) {
	if t.state == tsBlocked {
		t.state = tsRunnable
	}
}

func (s *Sched) abortAll() {
	s.aborting = true
	for _, t := range s.threads {
		if t.state == tsDone {
			continue
		}
		if !t.started {
			t.state = tsDone
			continue
		}
		t.state = tsRunnable
		t.resume <- struct{}{}
		<-s.ctl
	}
}

// ---- API used by rewritten code and scenarios ----

// Go spawns a thread.
func Go(fn func()) {
	s := S
	if s == nil {
		go fn()
		return
	}
	if s.aborting {
		return
	}
	_, file, line, _ := runtime.Caller(1)
	if i := strings.LastIndex(file, "/"); i >= 0 {
		file = file[i+1:]
	}
	s.newThread(fmt.Sprintf("%s:%d", file, line), fn)
}

// Choose is an environment choice made by the scenario (loss patterns, fault positions).
func Choose(n int, label string) int {
	if S == nil {
		return 0
	}
	return S.decide(KEnv, n, false, label)
}

// Fail records a scenario-level assertion failure.
func Fail(format string, a ...any) {
	if S != nil {
		S.res.Failures = append(S.res.Failures, fmt.Sprintf(format, a...))
	}
}

// Outcome records the abstract outcome of the execution (for counting distinct outcomes).
func Outcome(format string, a ...any) {
	if S != nil {
		S.res.Outcome = fmt.Sprintf(format, a...)
	}
}

// Yield is an explicit scheduling point (for spin loops in scenarios).
func Yield() {
	if S != nil {
		S.point("yield")
	}
}

// Active reports whether code runs under the scheduler.
func Active() bool { return S != nil }

// ---- building blocks for the lock-like objects of package vsync ----

// PointOp is a bare scheduling point before an operation that never blocks (atomics, TryLock).
func PointOp(label string) {
	if S != nil && !S.aborting {
		S.point(label)
	}
}

// Acquire enters a possibly blocking operation: try() is attempted at the scheduling point and
// again each time the thread has been woken (barging: whoever is scheduled first wins).
func Acquire(label string, try func() bool, waiters *[]func()) {
	s := S
	if s.aborting {
		panic(abortT{})
	}
	t := s.point(label)
	for !try() {
		*waiters = append(*waiters, func() { s.wake(t) })
		s.block(t, label)
	}
}

// Release performs a releasing operation and wakes every waiter (they re-try when scheduled).
func Release(label string, do func(), waiters *[]func()) {
	s := S
	if s.aborting {
		return
	}
	if !s.cfg.NoReleasePoints {
		s.point(label)
	}
	do()
	ws := *waiters
	*waiters = nil
	for _, w := range ws {
		w()
	}
}

// WaitIdle blocks the caller until no other thread can run and no timer is pending: the moment
// at which an "eventually" action of the environment (closing a connection, stopping a muxer)
// is taken, without keeping a timer pending during the whole execution.
func WaitIdle() {
	s := S
	if s == nil {
		time.Sleep(20 * time.Millisecond)
		return
	}
	t := s.point("wait-idle")
	s.idleWaiters = append(s.idleWaiters, t)
	s.block(t, "wait-idle")
}

// DumpBlocked lists the blocked threads and what they wait on (debugging aid for scenarios).
func DumpBlocked() string {
	s := S
	if s == nil {
		return ""
	}
	var w []string
	for _, t := range s.threads {
		st := []string{"runnable", "blocked", "done"}[t.state]
		w = append(w, fmt.Sprintf("t%d(%s) %s: %s", t.id, t.name, st, t.waitOn))
	}
	return strings.Join(w, "\n")
}
