#!/bin/sh
# usage: tools/take_seed.sh <prop> <n>   (sub-agent results in /tmp/seed3/<prop>/_out)
# confirms the seeded change (suite green with it, demo fails with it, passes without), runs the
# property's quick check against it and stores everything under seeded/<prop>-s<n>/
p=$1; n=$2; wt=${SEED_ROOT:-/tmp/seed3}/$p; out=/verif/seeded/$p-s$n
pkg=$(sed -n 's/^pkgdir: *//p' $wt/_out/notes.md | head -1 | tr -d '` ')
mkdir -p $out
cp $wt/_out/mut1.diff $out/patch.diff; cp $wt/_out/demo1_test.go $out/demo_test.go.txt; cp $wt/_out/notes.md $out/notes.md
sh /verif/tools/confirm_seed.sh $wt 1 $pkg "./..." > $out/confirm.log 2>&1
MUT_LINES=6 sh /verif/tools/seedtest.sh $p quick $out/patch.diff > $out/check.log 2>&1
echo "== $p-s$n pkg=$pkg"; cat $out/confirm.log | grep -v "^ok\|^?" | head -20; cut -c1-400 $out/check.log
