#!/usr/bin/env python3
"""usage: import_seed.py <worktree> <n> <seed-id> <property> <demo-pkg-dir> <needs...>
Copies mut<n>.diff / demo<n>_test.go / notes.md into /verif/seeded/<seed-id>/ with meta.json."""
import sys, os, shutil, json
wt, n, sid, prop, pkg = sys.argv[1:6]
needs = " ".join(sys.argv[6:])
d = os.path.join("/verif/seeded", sid)
os.makedirs(d, exist_ok=True)
shutil.copy(os.path.join(wt, "_out", "mut%s.diff" % n), os.path.join(d, "patch.diff"))
shutil.copy(os.path.join(wt, "_out", "demo%s_test.go" % n), os.path.join(d, "demo_test.go.txt"))
if os.path.exists(os.path.join(wt, "_out", "notes.md")):
    shutil.copy(os.path.join(wt, "_out", "notes.md"), os.path.join(d, "notes.md"))
meta = {"seed": sid, "property": prop, "demo_package_dir": pkg, "needs_to_manifest": needs,
        "confirmed": "tools/confirm_seed.sh in the scratch worktree: existing suite (go test ./...) passes with the change; demo fails with it and passes without",
        "check_results": {}}
mp = os.path.join(d, "meta.json")
if os.path.exists(mp):
    meta["check_results"] = json.load(open(mp)).get("check_results", {})
json.dump(meta, open(mp, "w"), indent=1)
print("imported", d)
