// Package vnet is a minimal in-memory datagram network written with plain channels, mutexes and
// timers so that it can be rewritten for the deterministic scheduler together with the transport
// package (simnet, the E2 network, owns delivery itself and is not meant to run under vrt).
// Delivery is immediate and faithful unless a Filter says otherwise.
package vnet

import (
	"net"
	"os"
	"sync"
	"time"
)

type pkt struct {
	data []byte
	from *net.UDPAddr
}

// Filter decides what happens to a datagram: return the datagrams to deliver instead (nil =
// deliver unchanged, empty = drop).
type Filter func(from, to *net.UDPAddr, n int, b []byte) [][]byte

type Net struct {
	mu     sync.Mutex
	eps    map[string]*Conn
	filter Filter
	sent   int
}

func New() *Net { return &Net{eps: map[string]*Conn{}} }

func (n *Net) SetFilter(f Filter) {
	n.mu.Lock()
	n.filter = f
	n.mu.Unlock()
}

type Conn struct {
	net    *Net
	addr   *net.UDPAddr
	peer   *net.UDPAddr // connected sockets only
	in     chan pkt
	closed chan struct{}
	once   sync.Once

	mu       sync.Mutex
	deadline time.Time
	dlChange chan struct{}
}

func (n *Net) open(addr, peer *net.UDPAddr) *Conn {
	c := &Conn{net: n, addr: addr, peer: peer, in: make(chan pkt, 4096), closed: make(chan struct{}), dlChange: make(chan struct{}, 1)}
	n.mu.Lock()
	n.eps[addr.String()] = c
	n.mu.Unlock()
	return c
}

// Listen opens an unconnected socket (a server).
func (n *Net) Listen(addr *net.UDPAddr) *Conn { return n.open(addr, nil) }

// Dial opens a socket connected to remote (a client).
func (n *Net) Dial(local, remote *net.UDPAddr) *Conn { return n.open(local, remote) }

func (c *Conn) ReadMsgUDP(b, oob []byte) (n, oobn, flags int, addr *net.UDPAddr, err error) {
	for {
		c.mu.Lock()
		dl := c.deadline
		c.mu.Unlock()
		var timer <-chan time.Time
		if !dl.IsZero() {
			d := time.Until(dl)
			if d <= 0 {
				select {
				case p := <-c.in:
					return copy(b, p.data), 0, 0, p.from, nil
				default:
				}
				return 0, 0, 0, nil, os.ErrDeadlineExceeded
			}
			t := time.NewTimer(d)
			defer t.Stop()
			timer = t.C
		}
		select {
		case p := <-c.in:
			return copy(b, p.data), 0, 0, p.from, nil
		case <-c.closed:
			return 0, 0, 0, nil, net.ErrClosed
		case <-timer:
		case <-c.dlChange:
		}
	}
}

func (c *Conn) WriteMsgUDP(b, oob []byte, addr *net.UDPAddr) (int, int, error) {
	select {
	case <-c.closed:
		return 0, 0, net.ErrClosed
	default:
	}
	to := addr
	if to == nil {
		to = c.peer
	}
	if to == nil {
		return 0, 0, net.ErrWriteToConnected
	}
	c.net.mu.Lock()
	f := c.net.filter
	k := c.net.sent
	c.net.sent++
	dst := c.net.eps[to.String()]
	c.net.mu.Unlock()
	outs := [][]byte{b}
	if f != nil {
		if o := f(c.addr, to, k, b); o != nil {
			outs = o
		}
	}
	if dst == nil {
		return len(b), 0, nil // nobody there: datagrams vanish
	}
	for _, o := range outs {
		select {
		case dst.in <- pkt{append([]byte{}, o...), c.addr}:
		case <-dst.closed:
		default: // receive buffer full: dropped, as UDP does
		}
	}
	return len(b), 0, nil
}

func (c *Conn) Read(b []byte) (int, error) {
	n, _, _, _, err := c.ReadMsgUDP(b, nil)
	return n, err
}

func (c *Conn) Write(b []byte) (int, error) {
	n, _, err := c.WriteMsgUDP(b, nil, nil)
	return n, err
}

func (c *Conn) Close() error {
	already := true
	c.once.Do(func() {
		already = false
		close(c.closed)
		c.net.mu.Lock()
		if c.net.eps[c.addr.String()] == c {
			delete(c.net.eps, c.addr.String())
		}
		c.net.mu.Unlock()
	})
	if already {
		return net.ErrClosed
	}
	return nil
}

func (c *Conn) LocalAddr() net.Addr { return c.addr }
func (c *Conn) RemoteAddr() net.Addr {
	if c.peer == nil {
		return nil
	}
	return c.peer
}
func (c *Conn) SetDeadline(t time.Time) error { return c.SetReadDeadline(t) }
func (c *Conn) SetReadDeadline(t time.Time) error {
	c.mu.Lock()
	c.deadline = t
	c.mu.Unlock()
	select {
	case c.dlChange <- struct{}{}:
	default:
	}
	return nil
}
func (c *Conn) SetWriteDeadline(time.Time) error { return nil }
