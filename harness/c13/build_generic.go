//go:build !amd64 || appengine || gccgo

package main

func buildName() string { return "generic permutation" }
