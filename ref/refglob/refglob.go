// Package refglob is the reference matcher for C20: input matches pattern iff the input can be
// obtained from the pattern by replacing each '*' with some (possibly empty) string.
// Plain dynamic programming over (pattern prefix, input prefix); deliberately boring.
package refglob

func Match(pattern, input string) bool {
	p, n := len(pattern), len(input)
	// m[i][j]: pattern[:i] can produce input[:j]
	m := make([][]bool, p+1)
	for i := range m {
		m[i] = make([]bool, n+1)
	}
	m[0][0] = true
	for i := 1; i <= p; i++ {
		for j := 0; j <= n; j++ {
			if pattern[i-1] == '*' {
				// star produces empty (m[i-1][j]) or one more byte (m[i][j-1])
				m[i][j] = m[i-1][j] || (j > 0 && m[i][j-1])
			} else {
				m[i][j] = j > 0 && pattern[i-1] == input[j-1] && m[i-1][j-1]
			}
		}
	}
	return m[p][n]
}
