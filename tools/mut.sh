#!/bin/sh
# usage: tools/mut.sh <id> <tier> <file-in-repo> <sed-expr>   — apply a one-line mutation, run the check, revert
id=$1; tier=$2; f=$3; expr=$4
cp /repo/$f /tmp/mut.orig.$$
sed -i "$expr" /repo/$f
if cmp -s /repo/$f /tmp/mut.orig.$$; then echo "MUTATION DID NOT APPLY: $expr"; rm -f /tmp/mut.orig.$$; exit 3; fi
(cd /verif && ./check $id $tier 2>&1 | grep -E "SUMMARY|VIOLATION|ENGINE|KNOWN" | cut -c1-330 | head -${MUT_LINES:-3})
cp /tmp/mut.orig.$$ /repo/$f; rm -f /tmp/mut.orig.$$
git -C /repo status --short | grep -v '^??' | head -3
