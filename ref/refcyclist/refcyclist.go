// Package refcyclist is Cyclist (Xoodyak paper, algorithms 2-3) with f = Keccak-p[1600,12],
// R_hash = R_kin = R_kout = 136 bytes, l_ratchet = 32 bytes, written from the paper on a
// 200-byte array. No relation to the code under test.
package refcyclist

import (
	"errors"

	"hop.computer/hop/zzverif/refkeccak"
)

const (
	fB      = 200
	rate    = 136
	ratchet = 32
)

type C struct {
	S     [fB]byte
	Up    bool // phase
	Keyed bool
}

var ErrMode = errors.New("keyed operation in hash mode")

func New() *C { return &C{Up: true} }

func NewKeyed(key, id, counter []byte) *C {
	c := New()
	if len(key) > 0 {
		c.absorbKey(key, id, counter)
	}
	return c
}

func (c *C) down(x []byte, cd byte) {
	for i, b := range x {
		c.S[i] ^= b
	}
	c.S[len(x)] ^= 0x01
	if !c.Keyed {
		cd &= 0x01
	}
	c.S[fB-1] ^= cd
	c.Up = false
}

func (c *C) up(n int, cu byte) []byte {
	if c.Keyed {
		c.S[fB-1] ^= cu
	}
	refkeccak.P(&c.S, 12)
	c.Up = true
	return append([]byte{}, c.S[:n]...)
}

func split(x []byte, n int) [][]byte {
	if len(x) == 0 {
		return [][]byte{{}}
	}
	var out [][]byte
	for len(x) > 0 {
		k := n
		if len(x) < k {
			k = len(x)
		}
		out = append(out, x[:k])
		x = x[k:]
	}
	return out
}

func (c *C) absorbAny(x []byte, r int, cd byte) {
	for _, blk := range split(x, r) {
		if !c.Up {
			c.up(0, 0)
		}
		c.down(blk, cd)
		cd = 0
	}
}

func (c *C) absorbKey(k, id, counter []byte) {
	c.Keyed = true
	buf := append(append(append([]byte{}, k...), id...), byte(len(id)))
	c.absorbAny(buf, rate, 0x02)
	if len(counter) > 0 {
		c.absorbAny(counter, 1, 0x00)
	}
}

func (c *C) crypt(in []byte, decrypt bool) []byte {
	cu := byte(0x80)
	var out []byte
	for _, blk := range split(in, rate) {
		ks := c.up(len(blk), cu)
		cu = 0
		o := make([]byte, len(blk))
		for i := range blk {
			o[i] = blk[i] ^ ks[i]
		}
		out = append(out, o...)
		if decrypt {
			c.down(o, 0)
		} else {
			c.down(blk, 0)
		}
	}
	return out
}

func (c *C) squeezeAny(n int, cu byte) []byte {
	k := n
	if k > rate {
		k = rate
	}
	y := c.up(k, cu)
	for len(y) < n {
		c.down(nil, 0)
		k = n - len(y)
		if k > rate {
			k = rate
		}
		y = append(y, c.up(k, 0)...)
	}
	return y
}

func (c *C) Absorb(x []byte) { c.absorbAny(x, rate, 0x03) }

func (c *C) Encrypt(p []byte) ([]byte, error) {
	if !c.Keyed {
		return nil, ErrMode
	}
	return c.crypt(p, false), nil
}

func (c *C) Decrypt(ct []byte) ([]byte, error) {
	if !c.Keyed {
		return nil, ErrMode
	}
	return c.crypt(ct, true), nil
}

func (c *C) Squeeze(n int) []byte { return c.squeezeAny(n, 0x40) }

func (c *C) SqueezeKey(n int) ([]byte, error) {
	if !c.Keyed {
		return nil, ErrMode
	}
	return c.squeezeAny(n, 0x20), nil
}

func (c *C) Ratchet() error {
	if !c.Keyed {
		return ErrMode
	}
	c.absorbAny(c.squeezeAny(ratchet, 0x10), rate, 0x00)
	return nil
}
