#!/usr/bin/env python3
"""Run every seeded change against the quick check of its property (in a scratch worktree, via
tools/seedtest.sh) and record the outcome in seeded/<id>/meta.json.  usage: sweep_seeds.py [ids...]"""
import json, os, re, subprocess, sys, time
V = os.path.dirname(os.path.dirname(os.path.abspath(__file__)))
BASE = {"C06-s1": "f1e3bb1", "C07-s2": "f1e3bb1"}          # patches that only apply to an earlier tree
ALSO = {"C14-s2": ["C03"]}                                  # caught by another property's check
only = sys.argv[1:]
for d in sorted(os.listdir(os.path.join(V, "seeded"))):
    if only and d not in only:
        continue
    if d.startswith("own-"):
        continue
    mp = os.path.join(V, "seeded", d, "meta.json")
    if not os.path.exists(mp):
        continue
    m = json.load(open(mp))
    res = {}
    for cid in [m["property"]] + ALSO.get(d, []):
        t0 = time.time()
        cmd = [os.path.join(V, "tools", "seedtest.sh"), cid, "quick", os.path.join(V, "seeded", d, "patch.diff")]
        if d in BASE:
            cmd.append(BASE[d])
        env = dict(os.environ, MUT_LINES="40")
        try:
            out = subprocess.run(cmd, capture_output=True, text=True, timeout=3000, env=env).stdout
        except subprocess.TimeoutExpired:
            out = "TIMEOUT"
        sm = re.search(r"SUMMARY .*violations=(\d+)", out)
        keys = re.findall(r"VIOLATION property=\S+ replay=\S+ key=(\S+)", out)
        r = {"tier": "quick", "base": BASE.get(d, "HEAD"), "wall_s": round(time.time() - t0)}
        if "DOES NOT APPLY" in out:
            r["result"] = "patch does not apply"
        elif sm is None:
            r["result"] = "no verdict: " + out.strip()[-200:]
        else:
            r["violations"] = int(sm.group(1))
            r["caught"] = int(sm.group(1)) > 0
            r["first_keys"] = keys[:3]
        res[cid] = r
        print(d, cid, r, flush=True)
    m["check_results"] = res
    json.dump(m, open(mp, "w"), indent=1)
