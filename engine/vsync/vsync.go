// Package vsync replaces package sync in rewritten code (same names and method sets for the
// types the instrumented packages use). Under the scheduler the objects are modelled; outside
// it they fall back to the real primitives so the same sources run free (race twin).
package vsync

import (
	"sync"

	"hop.computer/hop/zzverif/vrt"
)

type Locker = sync.Locker

type Mutex struct {
	real    sync.Mutex
	locked  bool
	waiters []func()
}

func (m *Mutex) Lock() {
	if !vrt.Active() {
		m.real.Lock()
		return
	}
	vrt.Acquire("Mutex.Lock", func() bool {
		if m.locked {
			return false
		}
		m.locked = true
		return true
	}, &m.waiters)
}

func (m *Mutex) TryLock() bool {
	if !vrt.Active() {
		return m.real.TryLock()
	}
	vrt.PointOp("Mutex.TryLock")
	if m.locked {
		return false
	}
	m.locked = true
	return true
}

func (m *Mutex) Unlock() {
	if !vrt.Active() {
		m.real.Unlock()
		return
	}
	vrt.Release("Mutex.Unlock", func() {
		if !m.locked {
			panic("sync: unlock of unlocked mutex")
		}
		m.locked = false
	}, &m.waiters)
}

type RWMutex struct {
	real     sync.RWMutex
	writer   bool
	readers  int
	wwaiting int
	waiters  []func()
}

func (m *RWMutex) Lock() {
	if !vrt.Active() {
		m.real.Lock()
		return
	}
	m.wwaiting++
	vrt.Acquire("RWMutex.Lock", func() bool {
		if m.writer || m.readers > 0 {
			return false
		}
		m.writer = true
		m.wwaiting--
		return true
	}, &m.waiters)
}

func (m *RWMutex) Unlock() {
	if !vrt.Active() {
		m.real.Unlock()
		return
	}
	vrt.Release("RWMutex.Unlock", func() {
		if !m.writer {
			panic("sync: Unlock of unlocked RWMutex")
		}
		m.writer = false
	}, &m.waiters)
}

func (m *RWMutex) RLock() {
	if !vrt.Active() {
		m.real.RLock()
		return
	}
	vrt.Acquire("RWMutex.RLock", func() bool {
		if m.writer || m.wwaiting > 0 { // a pending writer blocks new readers
			return false
		}
		m.readers++
		return true
	}, &m.waiters)
}

func (m *RWMutex) RUnlock() {
	if !vrt.Active() {
		m.real.RUnlock()
		return
	}
	vrt.Release("RWMutex.RUnlock", func() {
		if m.readers <= 0 {
			panic("sync: RUnlock of unlocked RWMutex")
		}
		m.readers--
	}, &m.waiters)
}

func (m *RWMutex) RLocker() Locker { return (*rlocker)(m) }

type rlocker RWMutex

func (r *rlocker) Lock()   { (*RWMutex)(r).RLock() }
func (r *rlocker) Unlock() { (*RWMutex)(r).RUnlock() }

type WaitGroup struct {
	real    sync.WaitGroup
	n       int
	waiters []func()
}

func (w *WaitGroup) Add(d int) {
	if !vrt.Active() {
		w.real.Add(d)
		return
	}
	vrt.Release("WaitGroup.Add", func() {
		w.n += d
		if w.n < 0 {
			panic("sync: negative WaitGroup counter")
		}
	}, &w.waiters)
}

func (w *WaitGroup) Done() { w.Add(-1) }

func (w *WaitGroup) Go(f func()) {
	w.Add(1)
	vrt.Go(func() {
		defer w.Done()
		f()
	})
}

func (w *WaitGroup) Wait() {
	if !vrt.Active() {
		w.real.Wait()
		return
	}
	vrt.Acquire("WaitGroup.Wait", func() bool { return w.n == 0 }, &w.waiters)
}

// Once is modelled with a mutex-like protocol: the first caller runs f, the others wait for it.
type Once struct {
	real    sync.Once
	state   int // 0 not started, 1 running, 2 done
	waiters []func()
}

func (o *Once) Do(f func()) {
	if !vrt.Active() {
		o.real.Do(f)
		return
	}
	first := false
	vrt.Acquire("Once.Do", func() bool {
		switch o.state {
		case 0:
			o.state = 1
			first = true
			return true
		case 2:
			return true
		}
		return false
	}, &o.waiters)
	if first {
		defer vrt.Release("Once.done", func() { o.state = 2 }, &o.waiters)
		f()
	}
}
