// C05 (concurrent part) — an authorization grant is consumed by exactly one login.
//
// The grant map and the transport key set (packages authgrants and authkeys) are rewritten for the
// deterministic scheduler; threads call the real HopServer.AuthorizeKeyAuthGrant / AddAuthGrant
// concurrently and every interleaving of their lock sections is explored (the scenarios are so
// small that the bound is the whole space).
package main

import (
	"flag"
	"fmt"
	"io"
	"sort"
	"strings"
	"sync"
	"time"

	"github.com/sirupsen/logrus"

	"hop.computer/hop/authgrants"
	"hop.computer/hop/authkeys"
	"hop.computer/hop/certs"
	"hop.computer/hop/config"
	"hop.computer/hop/hopserver"
	"hop.computer/hop/keys"
	"hop.computer/hop/zzverif/vk"
	"hop.computer/hop/zzverif/vrt"
	"hop.computer/hop/zzverif/vsync"
	"hop.computer/hop/zzverif/vx"
)

var worker = flag.Bool("vx-worker", false, "internal")

var K [3]keys.DHPublicKey
var leafs [3]certs.Certificate

func init() {
	for i := 1; i <= 2; i++ {
		for j := range K[i] {
			K[i][j] = byte(i*50 + j)
		}
		c, err := certs.SelfSignLeaf(&certs.Identity{PublicKey: K[i], Names: []certs.Name{certs.RawStringName("delegate")}})
		if err != nil {
			panic(err)
		}
		leafs[i] = *c
	}
}

// A program: Pre grants exist for (alice, K1); then the threads run concurrently. Thread letters:
// L = login (alice, K1)   A = add a further grant for (alice, K1)   O = login (alice, K2): other key
type prog struct {
	Pre     int
	Threads string
}

func (p prog) String() string { return fmt.Sprintf("%d:%s", p.Pre, p.Threads) }

var mu sync.Mutex

func scenario(arg string) *vx.Scenario {
	var p prog
	fmt.Sscanf(arg, "%d:%s", &p.Pre, &p.Threads)
	return &vx.Scenario{Name: "grants:" + arg, Cfg: vrt.Config{MaxSteps: 100000, MaxTime: time.Minute, Settle: time.Second}, Run: func() {
		sock := "/nonexistent/agproxy.sock"
		s, err := hopserver.NewHopServerExt(nil, &config.ServerConfig{EnableAuthgrants: true, AgProxyListenSocket: &sock}, authkeys.NewSyncAuthKeySet())
		if err != nil {
			vrt.Fail("cannot build server: %v", err)
			return
		}
		added := map[string]bool{}
		add := func(name string) {
			in := &authgrants.Intent{GrantType: authgrants.Command, TargetUsername: "alice", DelegateCert: leafs[1], StartTime: time.Unix(0, 0), ExpTime: time.Unix(1<<40, 0)}
			in.AssociatedData.CommandGrantData.Cmd = name
			if err := s.AddAuthGrant(in); err != nil {
				vrt.Fail("AddAuthGrant: %v", err)
			}
			mu.Lock()
			added[name] = true
			mu.Unlock()
		}
		for i := 0; i < p.Pre; i++ {
			add(fmt.Sprintf("pre%d", i))
		}
		handed := map[string]int{}
		var results []string
		var wg vsync.WaitGroup
		for ti, c := range p.Threads {
			ti, c := ti, c
			wg.Add(1)
			vrt.Go(func() {
				defer wg.Done()
				switch c {
				case 'A':
					add(fmt.Sprintf("t%d", ti))
				case 'L', 'O':
					key := K[1]
					if c == 'O' {
						key = K[2]
					}
					ags, err := s.AuthorizeKeyAuthGrant("alice", key)
					mu.Lock()
					defer mu.Unlock()
					if err != nil {
						results = append(results, fmt.Sprintf("%c%d:refused", c, ti))
						return
					}
					var names []string
					for _, a := range ags {
						n := a.AssociatedData.CommandGrantData.Cmd
						names = append(names, n)
						handed[n]++
					}
					results = append(results, fmt.Sprintf("%c%d:%v", c, ti, names))
					if len(ags) == 0 {
						vrt.Fail("login %c%d was admitted through the grant path with no grant at all", c, ti)
					}
					if c == 'O' {
						vrt.Fail("login with key K2 was admitted through grants %v issued for key K1", names)
					}
				}
			})
		}
		wg.Wait()
		mu.Lock()
		defer mu.Unlock()
		sort.Strings(results)
		for n, k := range handed {
			if k > 1 {
				vrt.Fail("grant %q was handed to %d logins (%v): a consumed grant admitted a second login", n, k, results)
			}
			if !added[n] {
				vrt.Fail("grant %q was handed to a login but never added (%v)", n, results)
			}
		}
		// nothing is lost either: what was added is handed out or still stored
		left := hopserver.VerifGrantNames(s, "alice", K[1])
		for n := range added {
			k := handed[n]
			for _, l := range left {
				if l == n {
					k++
				}
			}
			if k != 1 {
				vrt.Fail("grant %q: handed out + still stored = %d, want 1 (%v, stored %v)", n, k, results, left)
			}
		}
		vrt.Outcome("%s left=%d", strings.Join(results, " "), len(left))
	}}
}

func classify(w string) string {
	for _, k := range []string{"deadlock", "panic", "second login", "no grant at all", "issued for key K1", "never added", "still stored"} {
		if strings.Contains(w, k) {
			return strings.ReplaceAll(k, " ", "-")
		}
	}
	return "other"
}

func main() {
	flag.Parse()
	logrus.SetOutput(io.Discard)
	vx.Registry["grants"] = scenario
	if *worker {
		vx.WorkerMain()
		return
	}
	r := vk.New("C05", "model_checking")
	if r.ReplayFile != "" {
		var rc struct {
			Arg     string `json:"arg"`
			Choices []int  `json:"choices"`
		}
		if err := r.LoadReplay(&rc); err != nil {
			r.EngineError("replay: %v", err)
			r.Finish()
		}
		ps, stable, res := vx.Replay(scenario(rc.Arg), rc.Choices)
		fmt.Println("stable:", stable, "outcome:", res.Outcome)
		for _, p := range ps {
			r.Violation("replayed:"+classify(p), p, rc)
		}
		r.Finish()
	}
	var progs []prog
	for _, pre := range []int{0, 1, 2} {
		for _, th := range []string{"LL", "LA", "LLA", "LLL", "LAA", "LO", "LLO"} {
			progs = append(progs, prog{pre, th})
		}
	}
	bounds := vx.Bounds{3, 3, 3, 0, 0}
	if r.Thorough() {
		progs = append(progs, prog{1, "LLLA"}, prog{2, "LLAA"}, prog{1, "LLAO"})
		bounds = vx.Bounds{6, 6, 6, 0, 0}
	}
	var execs, points int64
	traces := 0
	outcomes := map[string]bool{}
	for _, p := range progs {
		e := &vx.Explorer{Bounds: bounds, MaxExec: 2000000, Deadline: r.Deadline}
		st := e.Explore("grants", p.String(), r.Workers)
		execs += st.Executions
		points += st.Points
		traces += st.NTraces
		for o := range st.Outcomes {
			outcomes[p.String()+"|"+o] = true
		}
		if st.Capped {
			r.Cap("execution cap hit for program " + p.String())
		}
		r.Distinct(p.String())
		for _, pr := range st.Problems {
			if strings.HasPrefix(pr.What, "ENGINE:") {
				r.EngineError("%s: %s", p, pr.What)
				continue
			}
			ps, stable, _ := vx.Replay(scenario(p.String()), pr.Choices)
			if !stable || len(ps) == 0 {
				r.EngineError("violation did not reproduce deterministically for %s: %s", p, pr.What)
				continue
			}
			r.Violation("concurrent-logins:"+classify(pr.What), fmt.Sprintf("%s | program: %d grants stored, threads %s | schedule: %d choices", pr.What, p.Pre, p.Threads, len(pr.Choices)), map[string]any{"arg": p.String(), "choices": pr.Choices})
		}
		r.SampleForce(map[string]any{"program": p.String(), "executions": st.Executions, "distinct_outcomes": len(st.Outcomes)})
	}
	r.EvalN(execs)
	r.Graph(int64(traces), points, execs)
	r.Set("concurrent_programs", len(progs))
	r.Set("concurrent_distinct_outcomes", len(outcomes))
	r.SetRule(fmt.Sprintf("concurrent part: real HopServer with 0..2 grants stored for (alice, K1); 2..4 threads, each one of {login (alice,K1) through AuthorizeKeyAuthGrant, AddAuthGrant of a further grant, login with another key}; the grant map and transport key set packages are rewritten for the deterministic scheduler and every interleaving of their lock sections within %v is executed; oracle: no grant is handed to two logins, only added grants are handed out, no login is admitted with no grant or with another key's grants, handed out + still stored = added.", bounds))
	r.Finish()
}
