// C08 — reliable tubes deliver the written byte stream in order, intact and complete.
//
// Part A (explicit-state search, E1): breadth-first search over every arrival order of data
// frames, duplicates, stale and out-of-window frames, pure acknowledgements and reads on the real
// reassembly core (tubes/receiver.go), from initial and non-initial (wrap-around) frame numbers,
// against a boring reference reassembler.
//
// Part B (scheduler-controlled exploration, E3): two real muxers (rewritten for the deterministic
// scheduler and virtual clock) joined by an in-memory link whose every packet is an environment
// choice point (deliver / drop / duplicate / delay 50 ms / delay 3 s), plus total outages followed
// by recovery and duplicate storms; both directions write at once.
package main

import (
	"encoding/json"
	"flag"
	"fmt"
	"io"
	"os"
	"os/exec"
	"strings"
	"sync"
	"sync/atomic"
	"time"

	"github.com/sirupsen/logrus"

	"hop.computer/hop/tubes"
	"hop.computer/hop/zzverif/seqx"
	"hop.computer/hop/zzverif/tuberig"
	"hop.computer/hop/zzverif/vk"
	"hop.computer/hop/zzverif/vrt"
	"hop.computer/hop/zzverif/vsync"
	"hop.computer/hop/zzverif/vx"
)

var worker = flag.Bool("vx-worker", false, "internal")
var freeBin = flag.String("bin-free", "", "the same harness built without the scheduler rewrite (free-running confirmation runs)")
var freeProg = flag.String("free-prog", "", "internal: run one program free-running and print the result")
var freeEventually = flag.Duration("free-eventually", 5*time.Second, "internal")

// ---------------- part A: reassembly core ----------------

type rop struct {
	Kind string `json:"kind"` // f = frame with index Idx relative to the start number, a = pure ack, r = read with N-byte buffer
	Idx  int    `json:"idx,omitempty"`
	N    int    `json:"n,omitempty"`
}

func (o rop) String() string {
	switch o.Kind {
	case "f":
		return fmt.Sprintf("frame%+d", o.Idx)
	case "a":
		return "ack"
	}
	return fmt.Sprintf("read%d", o.N)
}

type coreCfg struct {
	Start uint64 `json:"start"`
	NData int    `json:"ndata"`
}

var chunkLens = []int{1, 2, 3, 1, 2}

func chunk(i int) []byte {
	b := make([]byte, chunkLens[i%len(chunkLens)])
	for k := range b {
		b[k] = byte('a' + i)
	}
	return b
}

// execCore runs a path on a fresh real receiver and the reference side by side.
func execCore(cfg coreCfg, path []rop) seqx.Step {
	rv := tubes.VerifNewReceiver(cfg.Start)
	// reference reassembler
	next := 0 // index of the next frame to deliver
	pending := map[int]bool{}
	fin := false
	var stream []byte // bytes delivered in order so far
	consumed := 0
	eofSeen := false
	bad := ""
	for step, op := range path {
		switch op.Kind {
		case "f", "a":
			var data []byte
			isFin := false
			idx := op.Idx
			ack := op.Kind == "a"
			switch {
			case ack:
				idx = 0
			case idx >= 0 && idx < cfg.NData:
				data = chunk(idx)
			case idx == cfg.NData:
				isFin = true
			default:
				data = []byte("Z") // stale or far-away frame: its bytes must never show up
			}
			rv.Receive(uint32(cfg.Start+uint64(int64(idx))), data, isFin, ack, false)
			if !ack && !fin {
				if idx >= next && idx <= next+tubes.VerifMaxWindowSize {
					pending[idx] = true
				}
				for pending[next] {
					delete(pending, next)
					if next < cfg.NData {
						stream = append(stream, chunk(next)...)
					} else if next == cfg.NData {
						fin = true
					}
					next++
					if fin {
						break
					}
				}
			}
		case "r":
			data, err, wb := rv.Read(op.N)
			if wb {
				if len(stream) > consumed || fin {
					bad = fmt.Sprintf("step %d (%s): Read would block although %d delivered bytes are unread (fin=%v)", step, op, len(stream)-consumed, fin)
				}
				break
			}
			if consumed+len(data) > len(stream) || string(data) != string(stream[consumed:consumed+len(data)]) {
				bad = fmt.Sprintf("step %d (%s): Read returned %q, the written stream continues with %q", step, op, data, stream[consumed:])
				break
			}
			consumed += len(data)
			if err == io.EOF {
				eofSeen = true
				if !fin || consumed != len(stream) {
					bad = fmt.Sprintf("step %d (%s): end-of-stream reported after %d bytes; FIN delivered in order=%v, %d bytes delivered", step, op, consumed, fin, len(stream))
				}
			} else if err != nil {
				bad = fmt.Sprintf("step %d (%s): Read error %v", step, op, err)
			} else if len(data) == 0 && op.N > 0 {
				bad = fmt.Sprintf("step %d (%s): Read returned 0 bytes and no error", step, op)
			}
		}
		if bad != "" {
			break
		}
		st := rv.State()
		have := consumed + len(st.Buffered)
		if have > len(stream) || string(st.Buffered) != string(stream[consumed:have]) {
			bad = fmt.Sprintf("step %d (%s): assembled bytes %q are not the next bytes of the written stream %q", step, op, st.Buffered, stream[consumed:])
		} else if have < len(stream) {
			bad = fmt.Sprintf("step %d (%s): frames up to index %d have all arrived but only %d of their %d bytes are readable", step, op, next-1, have, len(stream))
		} else if st.Closed != fin {
			bad = fmt.Sprintf("step %d (%s): receiver closed=%v although the FIN's turn has come=%v", step, op, st.Closed, fin)
		} else if want := uint32(cfg.Start + uint64(next)); st.Ack != want {
			bad = fmt.Sprintf("step %d (%s): acknowledgement number %d, want %d (next frame not yet delivered)", step, op, st.Ack, want)
		}
		if bad != "" {
			break
		}
	}
	if bad != "" {
		return seqx.Step{Bad: bad}
	}
	st := rv.State()
	var pk []int
	for i := -1; i <= cfg.NData+tubes.VerifMaxWindowSize+2; i++ {
		if pending[i] {
			pk = append(pk, i)
		}
	}
	return seqx.Step{Key: fmt.Sprintf("%d|%d|%v|%x|%v|c%d|e%v|n%d|%v", st.AckNo-cfg.Start, st.WindowStart-cfg.Start, relFrags(st.Fragments, cfg.Start), st.Buffered, st.Closed, consumed, eofSeen, next, pk)}
}

func relFrags(f []uint64, start uint64) []int64 {
	out := make([]int64, len(f))
	for i, v := range f {
		out[i] = int64(v - start)
	}
	return out
}

func coreAlphabet(cfg coreCfg) []rop {
	var ops []rop
	for i := 0; i <= cfg.NData; i++ {
		ops = append(ops, rop{Kind: "f", Idx: i})
	}
	ops = append(ops, rop{Kind: "r", N: 1}, rop{Kind: "r", N: 4}, rop{Kind: "a"},
		rop{Kind: "f", Idx: -1}, rop{Kind: "f", Idx: tubes.VerifMaxWindowSize + 1})
	return ops
}

// ---------------- part B: muxer pair over a faulty link ----------------

type prog struct {
	CW    []int  `json:"cw"`             // client write sizes
	SW    []int  `json:"sw"`             // server write sizes
	RBuf  int    `json:"rbuf"`           // read buffer size
	EOF   int    `json:"eof"`            // the side (0 client, 1 server) that reads until end-of-stream; the other side closes first
	Fault string `json:"fault"`          // none | choice | outage | storm
	K     int    `json:"k,omitempty"`    // choice: the first K packets of each direction are choice points
	From  int    `json:"from,omitempty"` // outage: start (ms of virtual time) ...
	Len   int    `json:"len,omitempty"`  // ... and length (ms)
	Dir   string `json:"dir,omitempty"`  // outage / storm: a = client->server, b = server->client, ab
	Pkt   int    `json:"pkt,omitempty"`  // storm: index of the packet in its direction ...
	Count int    `json:"count,omitempty"`
	// storm: instead of an index, the first pure acknowledgement (no data, no FIN) whose number is >= MinAck
	MinAck int `json:"minack,omitempty"`
}

func (p prog) String() string { b, _ := json.Marshal(p); return string(b) }

// key identifies a deterministic fault program exactly (known findings are matched on it); the
// choice programs share one key per class.
func (p prog) key() string {
	switch p.Fault {
	case "outage":
		return fmt.Sprintf("outage:cw=%d/%d,sw=%d/%d,from=%d,len=%d,dir=%s", len(p.CW), total(p.CW), len(p.SW), total(p.SW), p.From, p.Len, p.Dir)
	case "storm":
		if p.MinAck > 0 {
			return fmt.Sprintf("storm:cw=%d/%d,sw=%d/%d,dir=%s,first-ack>=%d,copies=%d", len(p.CW), total(p.CW), len(p.SW), total(p.SW), p.Dir, p.MinAck, p.Count)
		}
		return fmt.Sprintf("storm:cw=%d/%d,sw=%d/%d,dir=%s,pkt=%d,copies=%d", len(p.CW), total(p.CW), len(p.SW), total(p.SW), p.Dir, p.Pkt, p.Count)
	}
	return p.Fault
}

func pat(side int, i int) byte {
	if side == 0 {
		return byte((i*131 + 7) % 251)
	}
	return byte((i*137+101)%241) | 0x80
}

func total(s []int) int {
	n := 0
	for _, v := range s {
		n += v
	}
	return n
}

// eventually: retransmission back-off is capped at 10 s x 9/8, anything beyond this is starvation
// (virtual time; the free-running confirmation uses a short real-time value instead)
var eventually = 120 * time.Second

var pktDebug = os.Getenv("VERIF_PKTS") != ""

var faultNames = []string{"deliver", "drop", "duplicate", "delay 50ms", "delay 3s"}

// Results of a free-running execution (the scheduler's verdicts are not available then).
var (
	mu          sync.Mutex // guards the scenario's bookkeeping; never held across a blocking call
	freeFails   []string
	freeOutcome string
)

func scenario(arg string) *vx.Scenario {
	var p prog
	if err := json.Unmarshal([]byte(arg), &p); err != nil {
		panic(err)
	}
	return &vx.Scenario{Name: "stream:" + arg, Cfg: vrt.Config{MaxSteps: 2000000, MaxTime: 30 * time.Minute, Settle: 5 * time.Second},
		Judge: func(r *vrt.Result) []string {
			var ps []string
			if r.Deadlock != "" {
				ps = append(ps, "deadlock: "+r.Deadlock)
			}
			ps = append(ps, r.Panics...)
			ps = append(ps, r.Failures...)
			return ps
		},
		Run: func() {
			fail := func(format string, a ...any) {
				mu.Lock()
				freeFails = append(freeFails, fmt.Sprintf(format, a...))
				mu.Unlock()
				vrt.Fail(format, a...)
			}
			m := tuberig.NewMuxers(0)
			t0 := vrt.Now()
			faultless := t0 // instant from which the link has been faultless
			note := func(d time.Duration) {
				mu.Lock()
				if t := vrt.Now().Add(d); t.After(faultless) {
					faultless = t
				}
				mu.Unlock()
			}
			stormDone := false
			var faults []string
			faultList := func() string { mu.Lock(); defer mu.Unlock(); return fmt.Sprint(faults) }
			mk := func(dir string, peer *tuberig.MemConn) tuberig.Filter {
				return func(_ string, n int, msg []byte) [][]byte {
					if pktDebug && len(msg) >= 12 {
						fmt.Printf("  [%v] pkt %s#%d id=%d flags=%02x len=%d ack=%d frame=%d\n", vrt.Since(t0), dir, n, msg[0], msg[1], int(msg[2])<<8|int(msg[3]), uint32(msg[4])<<24|uint32(msg[5])<<16|uint32(msg[6])<<8|uint32(msg[7]), uint32(msg[8])<<24|uint32(msg[9])<<16|uint32(msg[10])<<8|uint32(msg[11]))
					}
					switch p.Fault {
					case "choice":
						if n >= p.K {
							return nil
						}
						c := vrt.Choose(len(faultNames), fmt.Sprintf("pkt %s#%d", dir, n))
						if c != 0 {
							mu.Lock()
							faults = append(faults, fmt.Sprintf("%s#%d:%s", dir, n, faultNames[c]))
							mu.Unlock()
						}
						switch c {
						case 1:
							note(0)
							return [][]byte{}
						case 2:
							note(0)
							return [][]byte{msg, msg}
						case 3, 4:
							d := 50 * time.Millisecond
							if c == 4 {
								d = 3 * time.Second
							}
							cp := append([]byte{}, msg...)
							note(d)
							vrt.AfterFunc(d, func() { peer.Inject(cp) })
							return [][]byte{}
						}
					case "outage":
						el := vrt.Since(t0)
						if strings.Contains(p.Dir, dir) && el >= time.Duration(p.From)*time.Millisecond && el < time.Duration(p.From+p.Len)*time.Millisecond {
							note(0)
							return [][]byte{}
						}
					case "storm":
						hit := p.Dir == dir && n == p.Pkt
						if p.MinAck > 0 {
							mu.Lock()
							hit = p.Dir == dir && !stormDone && len(msg) >= 12 && msg[1]&0x1b == 0x08 && msg[2] == 0 && msg[3] == 0 &&
								int(uint32(msg[4])<<24|uint32(msg[5])<<16|uint32(msg[6])<<8|uint32(msg[7])) >= p.MinAck
							if hit {
								stormDone = true
							}
							mu.Unlock()
						}
						if hit {
							note(0)
							out := make([][]byte, p.Count)
							for i := range out {
								out[i] = msg
							}
							return out
						}
					}
					return nil
				}
			}
			m.CConn.SetFilter(mk("a", m.SConn))
			m.SConn.SetFilter(mk("b", m.CConn))
			ct, st, err := m.ReliablePair(7)
			if err != nil {
				fail("cannot open the tube: %v", err)
				return
			}
			aborted := false
			isAborted := func() bool { mu.Lock(); defer mu.Unlock(); return aborted }
			done := 0
			var read [2]int
			progress := func() (int, int, int) { mu.Lock(); defer mu.Unlock(); return done, read[0], read[1] }
			var wg vsync.WaitGroup
			// Close cancels the closing side's own pending reads, so a side closes only once it has
			// read everything it expects: the side p.EOF reads until end-of-stream (and must see it
			// exactly at the full length), the other side reads the known length and closes first.
			var wcond [2]vsync.WaitGroup // (this package is not rewritten for the scheduler: no raw channels here)
			wcond[0].Add(1)
			wcond[1].Add(1)
			writer := func(side int, t *tubes.Reliable, sizes []int) {
				defer wg.Done()
				defer wcond[side].Done()
				off := 0
				for _, sz := range sizes {
					b := make([]byte, sz)
					for i := range b {
						b[i] = pat(side, off+i)
					}
					n, err := t.Write(b)
					if (err != nil || n != sz) && !isAborted() {
						fail("side %d: Write(%d bytes) = %d, %v", side, sz, n, err)
						return
					}
					off += sz
				}
			}
			reader := func(side int, t *tubes.Reliable, want int) { // reads the stream written by the other side
				defer wg.Done()
				defer func() { mu.Lock(); done++; mu.Unlock() }()
				buf := make([]byte, p.RBuf)
				got := 0
				for got < want || side == p.EOF {
					n, err := t.Read(buf)
					for i := 0; i < n; i++ {
						if got+i >= want || buf[i] != pat(1-side, got+i) {
							fail("side %d: byte %d read from the tube is %#x; the peer wrote %d bytes and byte %d of them is %#x: stream reordered, duplicated or corrupted (faults %v)", side, got+i, buf[i], want, got+i, pat(1-side, got+i), faultList())
							return
						}
					}
					got += n
					mu.Lock()
					read[side] = got
					mu.Unlock()
					if err == io.EOF {
						if (got != want || side != p.EOF) && !isAborted() {
							fail("side %d: end-of-stream after %d of the %d bytes written before the close (faults %v)", side, got, want, faultList())
						}
						break
					}
					if err != nil {
						if !isAborted() {
							fail("side %d: Read failed with %v after %d of %d bytes (faults %v)", side, err, got, want, faultList())
						}
						return
					}
				}
				wcond[side].Wait()
				t.Close()
			}
			wg.Add(4)
			vrt.Go(func() { writer(0, ct, p.CW) })
			vrt.Go(func() { writer(1, st, p.SW) })
			vrt.Go(func() { reader(0, ct, total(p.SW)) })
			vrt.Go(func() { reader(1, st, total(p.CW)) })
			for {
				d, _, _ := progress()
				if d == 2 {
					break
				}
				vrt.Sleep(500 * time.Millisecond)
				mu.Lock()
				quiet := vrt.Since(faultless)
				mu.Unlock()
				if d, r0, r1 := progress(); d < 2 && quiet > eventually {
					fail("the link has been faultless for %v and the streams are still incomplete: client read %d of %d bytes, server read %d of %d bytes, %d of 2 readers finished (faults %v)", quiet, r0, total(p.SW), r1, total(p.CW), d, faultList())
					break
				}
			}
			mu.Lock()
			aborted = true
			mu.Unlock()
			_, r0, r1 := progress()
			vrt.Outcome("c=%d s=%d", r0, r1)
			mu.Lock()
			freeOutcome = fmt.Sprintf("c=%d s=%d", r0, r1)
			mu.Unlock()
			var sw vsync.WaitGroup
			for _, mx := range []*tubes.Muxer{m.Server, m.Client} {
				mx := mx
				sw.Add(1)
				vrt.Go(func() { defer sw.Done(); mx.Stop() })
			}
			sw.Wait()
			wg.Wait()
		}}
}

// freeRun executes one program with the same scenario code but without the scheduler: real
// goroutines, real time, the tubes package exactly as compiled from the repository.
func freeRun(bin, arg string, wait time.Duration) (fails []string, outcome string, err error) {
	cmd := exec.Command(bin, "-free-prog", arg, "-free-eventually", wait.String())
	out, err := cmd.Output()
	if err != nil {
		return nil, "", fmt.Errorf("free-running execution ended abnormally: %v", err)
	}
	var res struct {
		Failures []string `json:"failures"`
		Outcome  string   `json:"outcome"`
	}
	if e := json.Unmarshal(out, &res); e != nil {
		return nil, "", fmt.Errorf("free-running execution: unreadable result: %v", e)
	}
	return res.Failures, res.Outcome, nil
}

func classify(w string) string {
	for _, k := range []string{"deadlock", "panic", "stream reordered", "end-of-stream after", "Read failed", "still incomplete", "Write(", "cannot open"} {
		if strings.Contains(w, k) {
			return strings.Trim(strings.ReplaceAll(k, " ", "-"), "(")
		}
	}
	return "other"
}

type phase struct {
	name   string
	progs  []prog
	bounds vx.Bounds
	total  int
	window int
}

// eofSide: the side receiving the longer stream reads until end-of-stream.
func eofSide(w [2][]int) int {
	if total(w[0]) >= total(w[1]) {
		return 1
	}
	return 0
}

func phases(thorough bool) []phase {
	small := [][2][]int{{{1}, {}}, {{5, 3}, {2}}, {{}, {4, 4, 4}}}
	big := [][2][]int{{{32769}, {1}}, {{100000}, {40000}}, {{400000}, {}}, {{1, 1, 1, 1, 1, 1, 1, 1, 1, 1, 1, 1}, {70000}}}
	var ph []phase
	mkc := func(ws [][2][]int, k int, rbuf int) []prog {
		var out []prog
		for _, w := range ws {
			out = append(out, prog{CW: w[0], SW: w[1], RBuf: rbuf, EOF: eofSide(w), Fault: "choice", K: k})
			if total(w[0])+total(w[1]) < 100 {
				out = append(out, prog{CW: w[0], SW: w[1], RBuf: rbuf, EOF: 1 - eofSide(w), Fault: "choice", K: k})
			}
		}
		return out
	}
	var det []prog
	for _, w := range [][2][]int{small[1], big[1], big[2]} {
		det = append(det, prog{CW: w[0], SW: w[1], RBuf: 1000, EOF: eofSide(w), Fault: "none"})
		for _, from := range []int{0, 100, 400} {
			for _, l := range []int{300, 1000, 30000, 200000} {
				for _, d := range []string{"a", "b", "ab"} {
					det = append(det, prog{CW: w[0], SW: w[1], RBuf: 70000, EOF: eofSide(w), Fault: "outage", From: from, Len: l, Dir: d})
				}
			}
		}
		for _, d := range []string{"a", "b"} {
			for _, pk := range []int{0, 1, 2, 3, 5} {
				for _, n := range []int{3, 150} {
					det = append(det, prog{CW: w[0], SW: w[1], RBuf: 70000, EOF: eofSide(w), Fault: "storm", Dir: d, Pkt: pk, Count: n})
				}
			}
		}
	}
	// a tube that has already carried more than 20 frames (the duplicate-ack logic only engages then):
	// the storm hits the first pure acknowledgement numbered >= 5, 21 or 31
	many := make([]int, 30)
	for i := range many {
		many[i] = 1
	}
	for _, ma := range []int{5, 21, 31} {
		for _, n := range []int{3, 12, 100, 150} {
			det = append(det, prog{CW: many, SW: []int{3}, RBuf: 100, EOF: 1, Fault: "storm", Dir: "b", MinAck: ma, Count: n})
		}
	}
	ph = append(ph, phase{"outages, duplicate storms and fault-free runs, default schedule", det, vx.Bounds{}, 0, 0})
	if !thorough {
		ph = append(ph,
			phase{"one packet fault anywhere among the first 14 packets of each direction", append(mkc(small, 14, 3), mkc(big, 14, 70000)...), vx.Bounds{0, 0, 0, 0, 1}, 1, 0},
			phase{"two packet faults among the first 8 packets of each direction", mkc(small, 8, 3), vx.Bounds{0, 0, 0, 0, 2}, 2, 0},
			phase{"one packet fault and one scheduling deviation", mkc(small[:2], 6, 3), vx.Bounds{1, 1, 1, 0, 1}, 2, 400})
	} else {
		ph = append(ph,
			phase{"three packet faults among the first 8 packets of each direction", mkc(small, 8, 3), vx.Bounds{0, 0, 0, 0, 3}, 3, 0},
			phase{"one packet fault and two scheduling deviations", mkc(small[:2], 6, 3), vx.Bounds{2, 2, 2, 1, 1}, 3, 400},
			phase{"two packet faults anywhere among the first 14 packets of each direction", append(mkc(small, 14, 3), mkc(big, 14, 70000)...), vx.Bounds{0, 0, 0, 0, 2}, 2, 0})
	}
	return ph
}

func main() {
	flag.Parse()
	logrus.SetOutput(io.Discard)
	vx.Registry["stream"] = scenario
	if *worker {
		vx.WorkerMain()
		return
	}
	if *freeProg != "" {
		if vrt.Active() {
			panic("free run inside the scheduler")
		}
		eventually = *freeEventually
		scenario(*freeProg).Run()
		json.NewEncoder(os.Stdout).Encode(map[string]any{"failures": freeFails, "outcome": freeOutcome})
		return
	}
	r := vk.New("C08", "model_checking")
	if a := os.Getenv("VERIF_PROG"); a != "" {
		sc := scenario(a)
		sc.Cfg.Trace = os.Getenv("VERIF_TRACE") != ""
		res := vrt.Run(sc.Cfg, nil, sc.Run)
		fmt.Printf("program %s: points=%d steps=%d threads=%d vtime=%v outcome=%s deadlock=%q panics=%v failures=%v horizon=%q\n", a, len(res.Points), res.Steps, res.Threads, res.EndTime, res.Outcome, res.Deadlock, res.Panics, res.Failures, res.Horizon)
		env := 0
		for _, pt := range res.Points {
			if pt.Kind == vrt.KEnv {
				env++
			}
		}
		fmt.Println("env points:", env)
		for _, l := range res.Log {
			fmt.Println("  ", l)
		}
		r.Finish()
	}
	if r.ReplayFile != "" {
		var c map[string]json.RawMessage
		if err := r.LoadReplay(&c); err != nil {
			r.EngineError("replay: %v", err)
			r.Finish()
		}
		if _, ok := c["path"]; ok {
			var rc struct {
				Cfg  coreCfg `json:"cfg"`
				Path []rop   `json:"path"`
			}
			r.LoadReplay(&rc)
			if s := execCore(rc.Cfg, rc.Path); s.Bad != "" {
				r.Violation("replayed:core", s.Bad, rc)
			}
			r.Finish()
		}
		var rc struct {
			Arg     string `json:"arg"`
			Choices []int  `json:"choices"`
		}
		r.LoadReplay(&rc)
		sc := scenario(rc.Arg)
		sc.Cfg.Trace = os.Getenv("VERIF_TRACE") != ""
		ps, stable, res := vx.Replay(sc, rc.Choices)
		for _, l := range res.Log {
			fmt.Println("  ", l)
		}
		fmt.Println("stable:", stable, "virtual end:", res.EndTime, "outcome:", res.Outcome)
		for _, p := range ps {
			r.Violation("replayed:"+classify(p), p, rc)
		}
		r.Finish()
	}

	// ---- part A ----
	depth := 7
	starts := []uint64{1, 1<<31 - 2, 1<<32 - 2}
	ndatas := []int{0, 2, 3}
	if r.Thorough() {
		depth = 9
		starts = append(starts, 1<<32+1<<31-2, 5<<32-1, 1<<32)
		ndatas = []int{0, 1, 2, 3, 4}
	}
	var states, trans int64
	for _, s := range starts {
		for _, nd := range ndatas {
			cfg := coreCfg{Start: s, NData: nd}
			alpha := coreAlphabet(cfg)
			b := &seqx.BFS[rop]{Alphabet: func([]rop) []rop { return alpha }, Exec: func(p []rop) seqx.Step { return execCore(cfg, p) }, MaxDepth: depth, Workers: r.Workers, Expired: r.Expired,
				OnBad: func(p []rop, bad string) {
					r.Violation("core:"+coreClass(bad), fmt.Sprintf("%s | start frame number %d, %d data frames + FIN, arrivals %v", bad, cfg.Start, cfg.NData, p), map[string]any{"cfg": cfg, "path": p})
				}}
			st := b.Run()
			states += st.States
			trans += st.Transitions
			if st.Capped {
				r.Cap(fmt.Sprintf("core search capped for start=%d ndata=%d", s, nd))
			}
			r.Distinct(fmt.Sprintf("core|%d|%d", s, nd))
			r.SampleForce(map[string]any{"part": "A reassembly core", "start_frame_number": s, "data_frames": nd, "depth": depth, "states": st.States, "transitions": st.Transitions})
		}
	}
	r.EvalN(trans)
	r.Set("core_states", states)
	r.Set("core_transitions", trans)

	// ---- part B ----
	var execs, points, confN int64
	traces := 0
	outcomes := map[string]bool{}
	for _, ph := range phases(r.Thorough()) {
		e := &vx.Explorer{Bounds: ph.bounds, Total: ph.total, Window: ph.window, MaxExec: 3000000, Deadline: r.Deadline}
		var phExec int64
		for i, p := range ph.progs {
			if r.Expired() {
				r.Cap(fmt.Sprintf("budget expired in phase %q after %d of %d programs", ph.name, i, len(ph.progs)))
				break
			}
			st := e.Explore("stream", p.String(), r.Workers)
			execs += st.Executions
			phExec += st.Executions
			points += st.Points
			traces += st.NTraces
			for o := range st.Outcomes {
				outcomes[o] = true
			}
			if st.Capped {
				r.Cap("execution cap / budget hit for program " + p.String() + " in phase " + ph.name)
			}
			if st.Horizons > 0 {
				r.AddInt("executions_hitting_horizon", st.Horizons)
			}
			r.Distinct(ph.name + p.String())
			for _, pr := range st.Problems {
				if strings.HasPrefix(pr.What, "ENGINE:") {
					r.EngineError("%s: %s", p, pr.What)
					continue
				}
				ps, stable, _ := vx.Replay(scenario(p.String()), pr.Choices)
				if !stable || len(ps) == 0 {
					r.EngineError("violation did not reproduce deterministically for %s: %s", p, pr.What)
					continue
				}
				confirm := ""
				if *freeBin != "" && p.Fault != "choice" {
					// the same program against the tubes package as compiled from the repository, free-running
					if fails, out, err := freeRun(*freeBin, p.String(), 5*time.Second); err != nil {
						confirm = " | free-running confirmation: " + err.Error()
					} else if len(fails) > 0 {
						confirm = fmt.Sprintf(" | reproduced free-running (unmodified tubes package, real goroutines and time, 5 s patience): %s", fails[0])
					} else {
						confirm = " | not reproduced free-running within 5 s (outcome " + out + ")"
					}
				}
				r.Violation("stream:"+classify(pr.What)+":"+p.key(), fmt.Sprintf("%s | program: %s | bounds %v | schedule: %d choices%s", pr.What, p, ph.bounds, len(pr.Choices), confirm), map[string]any{"arg": p.String(), "choices": pr.Choices})
			}
			if os.Getenv("VERIF_VERBOSE") != "" {
				fmt.Printf("phase %q prog %s exec=%d maxpoints=%d problems=%d outcomes=%d\n", ph.name, p, st.Executions, st.MaxPoints, len(st.Problems), len(st.Outcomes))
			}
		}
		r.SampleForce(map[string]any{"part": "B muxer pair", "phase": ph.name, "programs": len(ph.progs), "bounds": ph.bounds.String(), "total_deviations": ph.total, "deviation_window": ph.window, "executions": phExec})
	}
	// ---- conformance: scheduler outcomes vs the free-running implementation ----
	if *freeBin != "" {
		var conf []prog
		for _, p := range phases(r.Thorough())[0].progs {
			if p.Fault == "none" || (r.Thorough() && ((p.Fault == "outage" && p.Len <= 1000) || (p.Fault == "storm" && p.Count <= 12))) {
				conf = append(conf, p)
			}
		}
		var agree, disagree atomic.Int64
		type sres struct {
			outcome string
			probs   []string
		}
		sched := make([]sres, len(conf))
		for i, p := range conf { // the scheduler is a process-wide singleton: one execution at a time
			sc := scenario(p.String())
			res := vrt.Run(sc.Cfg, nil, sc.Run)
			sched[i] = sres{res.Outcome, sc.Judge(res)}
		}
		r.Parallel(len(conf), func(i int) {
			p := conf[i]
			fails, out, err := freeRun(*freeBin, p.String(), 60*time.Second)
			if err == nil && len(fails) == 0 && len(sched[i].probs) == 0 && out == sched[i].outcome {
				agree.Add(1)
				return
			}
			disagree.Add(1)
			// real time is involved on the free-running side, so a disagreement is reported in the
			// evidence (and makes the run non-exhaustive) instead of failing the check
			r.Cap(fmt.Sprintf("conformance disagreement: program %s: scheduler outcome %q problems %v, free-running outcome %q failures %v err %v", p, sched[i].outcome, sched[i].probs, out, fails, err))
		})
		r.Set("conformance_programs_replayed_free_running", agree.Load()+disagree.Load())
		r.Set("conformance_agreeing", agree.Load())
		confN = agree.Load()
	}
	r.EvalN(execs)
	r.Graph(states+int64(traces), trans+points, execs+confN)
	r.Set("stream_executions", execs)
	r.Set("distinct_stream_outcomes", len(outcomes))
	r.SetRule(fmt.Sprintf("A: breadth-first search (depth %d) over arrivals on the real reassembly core from start frame numbers %v with 0..%d data frames + FIN: alphabet {each data frame, FIN, stale frame start-1, frame start+%d (beyond the window), pure acknowledgement, Read(1), Read(4)}, i.e. every arrival order with duplicates; after every step the readable bytes, the acknowledgement number, the closed flag and end-of-stream are compared with a reference reassembler (set of arrived in-window frames -> longest contiguous prefix). B: two real muxers under the deterministic scheduler and virtual clock, one reliable tube, both sides write position-dependent byte patterns (write-size sequences incl. 1 byte, frame size + 1, 100000 and 400000 bytes = more frames than the initial window) and read until end-of-stream; every one of the first K packets of each direction is a choice point {deliver, drop, duplicate, delay 50 ms (reordering), delay 3 s (beyond the retransmission timeout)} explored exhaustively within the phase's fault bound, plus total outages (start 0/100/400 ms x length 0.3/1/30/200 s x direction a/b/both) followed by recovery and duplicate storms (3 or 150 copies of one packet; 3, 12, 100 or 150 copies of an acknowledgement on a tube that already carried more than 20 frames). Oracles: every byte returned by Read equals the byte written at that offset; end-of-stream only at the full length; no panic/deadlock; both streams complete within %v of virtual time after the link became faultless (retransmission back-off is capped at 10 s, so this is 'eventually').", depth, starts, ndatas[len(ndatas)-1], tubes.VerifMaxWindowSize+1, eventually))
	r.Assume("sequentially consistent interleavings at synchronisation points; virtual time; faults only among the first K packets per direction in the choice phases (later packets are delivered faithfully)")
	r.Finish()
}

func coreClass(b string) string {
	for _, k := range []string{"would block", "Read returned", "end-of-stream", "Read error", "not the next bytes", "are readable", "receiver closed", "acknowledgement number"} {
		if strings.Contains(b, k) {
			return strings.ReplaceAll(k, " ", "-")
		}
	}
	return "other"
}
