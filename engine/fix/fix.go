// Package fix builds the fixtures of the E2 checks: a small PKI, transport servers and clients
// wired to a simnet, and the pump that moves datagrams under the explorer's control.
package fix

import (
	"crypto/rand"
	"fmt"
	"net"
	"sync"
	"time"

	"hop.computer/hop/certs"
	"hop.computer/hop/keys"
	"hop.computer/hop/transport"
	"hop.computer/hop/zzverif/simnet"
)

type PKI struct {
	Root, Inter       *certs.Certificate
	RootKey, InterKey *keys.SigningKeyPair
}

func must[T any](v T, err error) T {
	if err != nil {
		panic(err)
	}
	return v
}

func NewPKI(label string) *PKI {
	p := &PKI{RootKey: keys.GenerateNewSigningKeyPair(), InterKey: keys.GenerateNewSigningKeyPair()}
	p.Root = must(certs.SelfSignRoot(&certs.Identity{PublicKey: p.RootKey.Public, Names: []certs.Name{certs.RawStringName(label + "-root")}}, p.RootKey))
	if err := p.Root.ProvideKey((*[32]byte)(&p.RootKey.Private)); err != nil {
		panic(err)
	}
	p.Inter = must(certs.IssueIntermediate(p.Root, &certs.Identity{PublicKey: p.InterKey.Public, Names: []certs.Name{certs.RawStringName(label + "-inter")}}))
	if err := p.Inter.ProvideKey((*[32]byte)(&p.InterKey.Private)); err != nil {
		panic(err)
	}
	return p
}

// LeafFor issues a leaf for an arbitrary public key (the holder of the private key may be
// somebody else: that is how impostors with a valid certificate are built).
func (p *PKI) LeafFor(pub [32]byte, names ...certs.Name) *certs.Certificate {
	return must(certs.IssueLeaf(p.Inter, &certs.Identity{PublicKey: pub, Names: names}))
}

// LeafAt issues a leaf with an explicit validity window.
func (p *PKI) LeafAt(pub [32]byte, issuedAt time.Time, validity time.Duration, names ...certs.Name) *certs.Certificate {
	return must(certs.IssueLeafAt(p.Inter, &certs.Identity{PublicKey: pub, Names: names}, issuedAt, validity))
}

func (p *PKI) Store() certs.Store {
	var s certs.Store
	s.AddCertificate(p.Root)
	return s
}

func SelfSigned(pub [32]byte, names ...certs.Name) *certs.Certificate {
	return must(certs.SelfSignLeaf(&certs.Identity{PublicKey: pub, Names: names}))
}

func NewKEM() *keys.KEMKeyPair { return must(keys.GenerateKEMKeyPair(rand.Reader)) }

// World is one simulated network with its endpoints.
type World struct {
	Net     *simnet.Net
	Servers []*ServerEnd
	Clients []*ClientEnd
}

func NewWorld() *World { return &World{Net: simnet.New()} }

type ServerEnd struct {
	S    *transport.Server
	Conn *simnet.Conn
	Addr *net.UDPAddr
	done chan struct{}
}

func (w *World) StartServer(cfg transport.ServerConfig, addr *net.UDPAddr) (*ServerEnd, error) {
	if cfg.HandshakeTimeout == 0 {
		cfg.HandshakeTimeout = 24 * time.Hour // no real timer fires inside a run
	}
	conn := w.Net.Listen(addr, true)
	s, err := transport.NewServer(conn, cfg)
	if err != nil {
		return nil, err
	}
	se := &ServerEnd{S: s, Conn: conn, Addr: addr, done: make(chan struct{})}
	go func() {
		s.Serve()
		close(se.done)
	}()
	w.Servers = append(w.Servers, se)
	return se, nil
}

// AdoptServer registers a transport server that somebody else constructed on conn (the real
// hopserver.NewHopServer through the listen seam) and starts its receive loop.
func (w *World) AdoptServer(s *transport.Server, conn *simnet.Conn, addr *net.UDPAddr) *ServerEnd {
	se := &ServerEnd{S: s, Conn: conn, Addr: addr, done: make(chan struct{})}
	go func() {
		s.Serve()
		close(se.done)
	}()
	w.Servers = append(w.Servers, se)
	return se
}

// Accept returns the next offered handle without waiting (nil if the server offers none).
func (se *ServerEnd) Accept() *transport.Handle {
	_, _, pending := se.S.VerifCounts()
	if pending == 0 {
		return nil
	}
	h, err := se.S.AcceptTimeout(10 * time.Second)
	if err != nil {
		return nil
	}
	return h
}

type ClientEnd struct {
	C    *transport.Client
	Conn *simnet.Conn
	Addr *net.UDPAddr
	net  *simnet.Net

	mu      sync.Mutex
	started bool
	done    bool
	err     error
	panicv  any
}

func (w *World) NewClient(cfg transport.ClientConfig, addr, server *net.UDPAddr) *ClientEnd {
	conn := w.Net.Listen(addr, false)
	ce := &ClientEnd{C: transport.NewClient(conn, server, cfg), Conn: conn, Addr: addr, net: w.Net}
	w.Clients = append(w.Clients, ce)
	return ce
}

// Start runs Handshake on its own goroutine.
func (ce *ClientEnd) Start() {
	ce.mu.Lock()
	ce.started = true
	ce.mu.Unlock()
	ce.Conn.ExpectReader(true)
	go func() {
		var err error
		defer func() {
			if p := recover(); p != nil {
				ce.mu.Lock()
				ce.panicv = p
				ce.done = true
				ce.err = fmt.Errorf("panic: %v", p)
				ce.mu.Unlock()
				ce.Conn.ExpectReader(false)
			}
		}()
		err = ce.C.Handshake()
		ce.mu.Lock()
		ce.done, ce.err = true, err
		ce.mu.Unlock()
		// On failure nobody reads this conn again; the flag is flipped only after the result is
		// recorded, so the network is not quiescent before Result() is accurate. On success the
		// client's own state (read white-box by Completed) is already final when its listen
		// goroutine parks.
		ce.Conn.ExpectReader(err == nil)
	}()
}

// Result reports whether Handshake has returned, and with what.
func (ce *ClientEnd) Result() (done bool, err error) {
	ce.mu.Lock()
	defer ce.mu.Unlock()
	return ce.done, ce.err
}

func (ce *ClientEnd) Panicked() any {
	ce.mu.Lock()
	defer ce.mu.Unlock()
	return ce.panicv
}

// Completed: the handshake succeeded. Read from the client's own state, which is final before
// its receive loop starts (the harness-side record of Handshake's return value may lag behind
// the moment the network becomes quiescent).
func (ce *ClientEnd) Completed() bool { return ce.C.VerifOpen() }

// Tamper decides what is delivered in place of datagram d (the ord-th datagram popped in this
// pump). Returning nil delivers d unchanged; an empty non-nil slice drops it.
type Tamper func(ord int, d *simnet.Datagram) []*simnet.Datagram

// Pump moves datagrams until nothing is in flight and everything is at rest.
func (w *World) Pump(t Tamper) error {
	ord := 0
	for steps := 0; steps < 10000; steps++ {
		if err := w.Net.WaitQuiescent(); err != nil {
			return err
		}
		d := w.Net.Pop()
		if d == nil {
			return nil
		}
		var outs []*simnet.Datagram
		if t != nil {
			outs = t(ord, d)
		}
		ord++
		if outs == nil {
			outs = []*simnet.Datagram{d}
		}
		for _, o := range outs {
			w.Net.DeliverD(o)
			if err := w.Net.WaitQuiescent(); err != nil {
				return err
			}
		}
	}
	return fmt.Errorf("pump: step cap reached")
}

// Close shuts every endpoint down.
func (w *World) Close() {
	for _, c := range w.Clients {
		c.C.Close()
	}
	for _, s := range w.Servers {
		s.S.Close()
		<-s.done
	}
}

// Std is the standard honest pair: one CA, a server identity named "srv.example", a client
// identity, both with chains to the CA.
type Std struct {
	PKI       *PKI
	SrvKey    *keys.X25519KeyPair
	SrvKEM    *keys.KEMKeyPair
	SrvLeaf   *certs.Certificate
	SrvName   certs.Name
	CliKey    *keys.X25519KeyPair
	CliLeaf   *certs.Certificate
	ServerAdr *net.UDPAddr
}

func NewStd() *Std {
	s := &Std{PKI: NewPKI("ca"), SrvKey: keys.GenerateNewX25519KeyPair(), SrvKEM: NewKEM(), CliKey: keys.GenerateNewX25519KeyPair(),
		SrvName: certs.DNSName("srv.example"), ServerAdr: simnet.Addr("10.0.0.1", 77)}
	s.SrvLeaf = s.PKI.LeafFor(s.SrvKey.Public, s.SrvName)
	s.CliLeaf = s.PKI.LeafFor(s.CliKey.Public, certs.RawStringName("client"))
	return s
}

// ServerConfig: discoverable+hidden capable server that verifies clients against the CA.
func (s *Std) ServerConfig(hiddenOnly bool) transport.ServerConfig {
	st := s.PKI.Store()
	return transport.ServerConfig{KeyPair: s.SrvKey, KEMKeyPair: s.SrvKEM, Certificate: s.SrvLeaf, Intermediate: s.PKI.Inter,
		ClientVerify: &transport.VerifyConfig{Store: st}, IsHidden: hiddenOnly}
}

func (s *Std) ClientConfig(hidden bool) transport.ClientConfig {
	cc := transport.ClientConfig{Exchanger: s.CliKey, Leaf: s.CliLeaf, Intermediate: s.PKI.Inter,
		Verify: transport.VerifyConfig{Store: s.PKI.Store(), Name: s.SrvName}}
	if hidden {
		pk := s.SrvKEM.Public
		cc.ServerKEMKey = &pk
	}
	return cc
}

// PumpUntil is Pump that stops (leaving the datagram in flight) as soon as stop(d) is true for
// the next datagram. It reports whether it stopped on such a datagram.
func (w *World) PumpUntil(t Tamper, stop func(d *simnet.Datagram) bool) (bool, error) {
	ord := 0
	for steps := 0; steps < 10000; steps++ {
		if err := w.Net.WaitQuiescent(); err != nil {
			return false, err
		}
		d := w.Net.Pop()
		if d == nil {
			return false, nil
		}
		if stop(d) {
			w.Net.PushFront(d)
			return true, nil
		}
		var outs []*simnet.Datagram
		if t != nil {
			outs = t(ord, d)
		}
		ord++
		if outs == nil {
			outs = []*simnet.Datagram{d}
		}
		for _, o := range outs {
			w.Net.DeliverD(o)
			if err := w.Net.WaitQuiescent(); err != nil {
				return false, err
			}
		}
	}
	return false, fmt.Errorf("pump: step cap reached")
}
