package vrt

import (
	"sort"
	"time"
)

type timerEnt struct {
	when   int64
	seq    int
	fire   func() // runs in controller context
	active bool
	period int64
}

func (s *Sched) addTimer(d time.Duration, fire func()) *timerEnt {
	if d < 0 {
		d = 0
	}
	when := s.now + int64(d)
	if when < s.now { // overflow (e.g. a "never" timer armed with math.MaxInt64)
		when = 1<<63 - 1
	}
	e := &timerEnt{when: when, seq: s.timerSeq, fire: fire, active: true}
	s.timerSeq++
	s.timers = append(s.timers, e)
	sort.SliceStable(s.timers, func(i, j int) bool {
		if s.timers[i].when != s.timers[j].when {
			return s.timers[i].when < s.timers[j].when
		}
		return s.timers[i].seq < s.timers[j].seq
	})
	return e
}

func (s *Sched) delTimer(e *timerEnt) bool {
	if e == nil || !e.active {
		return false
	}
	e.active = false
	for i, x := range s.timers {
		if x == e {
			s.timers = append(s.timers[:i], s.timers[i+1:]...)
			break
		}
	}
	return true
}

// fireNext advances the clock to the earliest timer and fires it. Returns false on horizon.
func (s *Sched) fireNext() bool {
	if len(s.timers) == 0 {
		return true
	}
	e := s.timers[0]
	s.timers = s.timers[1:]
	e.active = false
	if e.when > s.now {
		s.now = e.when
	}
	if time.Duration(s.now) > s.cfg.MaxTime {
		s.res.Horizon = "virtual time cap " + s.cfg.MaxTime.String()
		return false
	}
	s.mix(uint64(e.when) ^ 0x77)
	e.fire()
	return true
}

// ---- time package replacements ----

func Now() time.Time {
	if S == nil {
		return time.Now()
	}
	return base.Add(time.Duration(S.now))
}

func Since(t time.Time) time.Duration { return Now().Sub(t) }
func Until(t time.Time) time.Duration { return t.Sub(Now()) }

func Sleep(d time.Duration) {
	if S == nil {
		time.Sleep(d)
		return
	}
	s := S
	t := s.point("sleep")
	if d <= 0 {
		return
	}
	s.addTimer(d, func() { s.wake(t) })
	s.block(t, "sleep")
}

// Timer replaces time.Timer.
type Timer struct {
	C   <-chan time.Time
	c   chan time.Time
	ent *timerEnt
	f   func()
	rt  *time.Timer // free-running twin
}

func (t *Timer) arm(d time.Duration) {
	s := S
	if t.f != nil {
		f := t.f
		t.ent = s.addTimer(d, func() { s.newThread("AfterFunc", f) })
		return
	}
	c := t.c
	t.ent = s.addTimer(d, func() {
		vc := s.ch(c)
		s.sendNow(vc, base.Add(time.Duration(s.now))) // one-slot buffer: a pending tick is never duplicated
	})
}

func NewTimer(d time.Duration) *Timer {
	if S == nil {
		rt := time.NewTimer(d)
		return &Timer{C: rt.C, rt: rt}
	}
	c := make(chan time.Time, 1)
	t := &Timer{C: c, c: c}
	S.ch(c)
	t.arm(d)
	return t
}

func AfterFunc(d time.Duration, f func()) *Timer {
	if S == nil {
		return &Timer{rt: time.AfterFunc(d, f)}
	}
	t := &Timer{f: f}
	t.arm(d)
	return t
}

func After(d time.Duration) <-chan time.Time { return NewTimer(d).C }

// Stop follows the Go >= 1.23 semantics: after Stop returns no stale value can be received.
func (t *Timer) Stop() bool {
	if t.rt != nil {
		return t.rt.Stop()
	}
	s := S
	if s == nil || s.aborting {
		return false
	}
	was := s.delTimer(t.ent)
	if t.c != nil {
		if vc := s.ch(t.c); len(vc.buf) > 0 {
			vc.buf = vc.buf[:0]
			was = true
		}
	}
	return was
}

func (t *Timer) Reset(d time.Duration) bool {
	if t.rt != nil {
		return t.rt.Reset(d)
	}
	if S == nil || S.aborting {
		return false
	}
	was := t.Stop()
	t.arm(d)
	return was
}

// Ticker replaces time.Ticker.
type Ticker struct {
	C   <-chan time.Time
	c   chan time.Time
	ent *timerEnt
	d   time.Duration
	rt  *time.Ticker
}

func (t *Ticker) arm() {
	s := S
	c := t.c
	t.ent = s.addTimer(t.d, func() {
		vc := s.ch(c)
		s.sendNow(vc, base.Add(time.Duration(s.now))) // dropped when the slot is full
		t.arm()
	})
}

func NewTicker(d time.Duration) *Ticker {
	if d <= 0 {
		panic("non-positive interval for NewTicker")
	}
	if S == nil {
		rt := time.NewTicker(d)
		return &Ticker{C: rt.C, rt: rt}
	}
	c := make(chan time.Time, 1)
	t := &Ticker{C: c, c: c, d: d}
	S.ch(c)
	t.arm()
	return t
}

func (t *Ticker) Stop() {
	if t.rt != nil {
		t.rt.Stop()
		return
	}
	if S == nil || S.aborting {
		return
	}
	S.delTimer(t.ent)
	if vc := S.ch(t.c); vc != nil {
		vc.buf = vc.buf[:0]
	}
}

func (t *Ticker) Reset(d time.Duration) {
	if t.rt != nil {
		t.rt.Reset(d)
		return
	}
	if S == nil || S.aborting {
		return
	}
	S.delTimer(t.ent)
	t.d = d
	if vc := S.ch(t.c); vc != nil {
		vc.buf = vc.buf[:0]
	}
	t.arm()
}
