//go:build verif

package codex

import "github.com/creack/pty"

// VerifExecInit is what NewExecTube writes on the exec tube.
func VerifExecInit(usePty bool, cmd, term string, size *pty.Winsize) []byte {
	return newExecInitMsg(usePty, cmd, term, size).ToBytes()
}
