#!/bin/sh
# usage: tools/confirm_seed.sh <worktree> <n> <demo-pkg-dir> "<test packages>"
# Confirms in the scratch worktree that mut<n>.diff (a) keeps the existing tests green,
# (b) makes demo<n>_test.go fail, and (c) the demo passes without the change.
wt=$1; n=$2; pkg=$3; pkgs=$4
export GOFLAGS=-mod=mod GOPROXY=off
cd $wt || exit 2
git checkout -q -- . ; rm -f $pkg/zz_demo_test.go
git apply _out/mut$n.diff || { echo "PATCH DOES NOT APPLY"; exit 2; }
echo "--- existing tests with change ($pkgs)"
unshare -n sh -c "ip link set lo up 2>/dev/null; go test -vet=off -count=1 -timeout 25m $pkgs" 2>&1 | grep -v "no test files" | tail -15
cp _out/demo${n}_test.go $pkg/zz_demo_test.go
echo "--- demo with change (expect FAIL)"
unshare -n sh -c "ip link set lo up 2>/dev/null; go test -vet=off -count=1 -timeout 10m ./$pkg/" 2>&1 | grep -E "^(--- FAIL|FAIL|ok|panic)" | head -5
git checkout -q -- .
echo "--- demo without change (expect ok)"
unshare -n sh -c "ip link set lo up 2>/dev/null; go test -vet=off -count=1 -timeout 10m ./$pkg/" 2>&1 | grep -E "^(--- FAIL|FAIL|ok|panic)" | head -5
rm -f $pkg/zz_demo_test.go
git status --short | grep -v _out
