// C03 (concurrent writers) — several goroutines writing on one transport connection at once.
//
// The transport and common packages are rewritten for the deterministic scheduler and run a real
// client and server over vnet; 2..3 writer threads per side write distinct messages concurrently
// while one reader per side collects them; every schedule within the deviation bounds is executed.
package main

import (
	"flag"
	"fmt"
	"io"
	"net"
	"os"
	"sort"
	"strings"
	"sync"
	"time"

	"github.com/sirupsen/logrus"

	"hop.computer/hop/transport"
	"hop.computer/hop/zzverif/fix"
	"hop.computer/hop/zzverif/vk"
	"hop.computer/hop/zzverif/vnet"
	"hop.computer/hop/zzverif/vrt"
	"hop.computer/hop/zzverif/vsync"
	"hop.computer/hop/zzverif/vx"
)

var worker = flag.Bool("vx-worker", false, "internal")

// A program: per side the number of messages each writer thread writes, e.g. C=[2,1] S=[1,1];
// Size is the message size class: s = 9 bytes, m = 1000 bytes, x = the maximum plaintext size.
type prog struct {
	C, S   []int
	Size   byte
	Hidden bool
}

func (p prog) String() string {
	return fmt.Sprintf("%s;%s;%c;%v", ints(p.C), ints(p.S), p.Size, p.Hidden)
}

func ints(a []int) string {
	var s []string
	for _, v := range a {
		s = append(s, fmt.Sprint(v))
	}
	return strings.Join(s, ",")
}

func parse(s string) prog {
	f := strings.Split(s, ";")
	p := prog{Size: f[2][0], Hidden: f[3] == "true"}
	for i, dst := range []*[]int{&p.C, &p.S} {
		if f[i] == "" {
			continue
		}
		for _, x := range strings.Split(f[i], ",") {
			var v int
			fmt.Sscan(x, &v)
			*dst = append(*dst, v)
		}
	}
	return p
}

var std = fix.NewStd()
var mu sync.Mutex // bookkeeping only

func msg(side, thread, k int, size byte) []byte {
	n := 9
	switch size {
	case 'm':
		n = 1000
	case 'x':
		n = transport.MaxPlaintextSize
	}
	b := make([]byte, n)
	tag := fmt.Sprintf("%d.%d.%d|", side, thread, k)
	for i := range b {
		b[i] = tag[i%len(tag)]
	}
	return b
}

type rw interface {
	ReadMsg([]byte) (int, error)
	Write([]byte) (int, error)
	SetReadDeadline(time.Time) error
}

func scenario(arg string) *vx.Scenario {
	p := parse(arg)
	return &vx.Scenario{Name: "writers:" + arg, Cfg: vrt.Config{MaxSteps: 400000, MaxTime: 10 * time.Minute, Settle: 30 * time.Second}, Judge: func(r *vrt.Result) []string {
		ps := vx.DefaultJudge(r)
		if r.Horizon != "" {
			ps = append(ps, "never returned: "+r.Horizon)
		}
		return ps
	}, Run: func() {
		nw := vnet.New()
		sa := &net.UDPAddr{IP: net.IPv4(10, 0, 0, 1), Port: 77}
		ca := &net.UDPAddr{IP: net.IPv4(10, 0, 0, 2), Port: 4000}
		scfg := std.ServerConfig(p.Hidden)
		scfg.HandshakeTimeout = 5 * time.Second
		srv, err := transport.NewServer(nw.Listen(sa), scfg)
		if err != nil {
			vrt.Fail("NewServer: %v", err)
			return
		}
		var bg vsync.WaitGroup
		bg.Add(1)
		vrt.Go(func() { defer bg.Done(); srv.Serve() })
		ccfg := std.ClientConfig(p.Hidden)
		ccfg.HSTimeout = 5 * time.Second
		cl := transport.NewClient(nw.Dial(ca, sa), sa, ccfg)
		if err := cl.Handshake(); err != nil {
			vrt.Fail("set-up handshake failed: %v", err)
			return
		}
		h, err := srv.AcceptTimeout(5 * time.Second)
		if err != nil {
			vrt.Fail("set-up accept failed: %v", err)
			return
		}
		ends := [2]rw{cl, h}
		plan := [2][]int{p.C, p.S}
		var got [2][]string // messages read by side i (written by side 1-i)
		var wg vsync.WaitGroup
		for side := 0; side < 2; side++ {
			side := side
			total := 0
			for ti, n := range plan[side] {
				ti, n := ti, n
				total += n
				wg.Add(1)
				vrt.Go(func() {
					defer wg.Done()
					for k := 0; k < n; k++ {
						b := msg(side, ti, k, p.Size)
						w, err := ends[side].Write(b)
						if err != nil || w != len(b) {
							vrt.Fail("side %d writer %d: Write of %d bytes returned %d, %v on a faithful network", side, ti, len(b), w, err)
						}
					}
				})
			}
			// the peer reads exactly what this side writes (or gives up after 5 virtual seconds)
			peer := 1 - side
			want := total
			wg.Add(1)
			vrt.Go(func() {
				defer wg.Done()
				buf := make([]byte, 70000)
				for i := 0; i < want+1; i++ {
					ends[peer].SetReadDeadline(vrt.Now().Add(5 * time.Second))
					n, err := ends[peer].ReadMsg(buf)
					if err != nil {
						return
					}
					mu.Lock()
					got[peer] = append(got[peer], string(buf[:n]))
					mu.Unlock()
				}
			})
		}
		wg.Wait()
		mu.Lock()
		for side := 0; side < 2; side++ {
			peer := 1 - side
			// expected multiset and per-writer order
			exp := map[string]int{}
			for ti, n := range plan[side] {
				for k := 0; k < n; k++ {
					exp[string(msg(side, ti, k, p.Size))]++
				}
			}
			last := map[string]int{}
			for _, m := range got[peer] {
				if exp[m] == 0 {
					d := m
					if len(d) > 30 {
						d = d[:30]
					}
					vrt.Fail("side %d read a message (%d bytes, starts %q) that no writer of the peer wrote, or read it twice", peer, len(m), d)
					continue
				}
				exp[m]--
				var s, ti, k int
				fmt.Sscanf(m, "%d.%d.%d|", &s, &ti, &k)
				key := fmt.Sprintf("%d.%d", s, ti)
				if prev, ok := last[key]; ok && k < prev {
					vrt.Fail("side %d read message %d of writer %s after its message %d: one writer's messages were reordered on a faithful network", peer, k, key, prev)
				}
				last[key] = k
			}
			var missing []string
			for m, n := range exp {
				if n > 0 {
					missing = append(missing, m[:strings.Index(m, "|")])
				}
			}
			sort.Strings(missing)
			if len(missing) > 0 {
				vrt.Fail("messages %v were accepted by Write on side %d but never delivered on a faithful network (%d of them arrived)", missing, side, len(got[peer]))
			}
		}
		o := fmt.Sprintf("c-read=%d s-read=%d", len(got[0]), len(got[1]))
		mu.Unlock()
		vrt.Outcome("%s", o)
		cl.Close()
		srv.Close()
		bg.Wait()
	}}
}

func classify(w string) string {
	for _, k := range []string{"deadlock", "never returned", "panic", "leaked", "no writer of the peer wrote", "reordered", "never delivered", "Write of", "set-up"} {
		if strings.Contains(w, k) {
			return strings.ReplaceAll(k, " ", "-")
		}
	}
	return "other"
}

func main() {
	flag.Parse()
	logrus.SetOutput(io.Discard)
	vx.Registry["writers"] = scenario
	if *worker {
		vx.WorkerMain()
		return
	}
	r := vk.New("C03", "model_checking")
	if a := os.Getenv("VERIF_PROG"); a != "" {
		sc := scenario(a)
		res := vrt.Run(sc.Cfg, nil, sc.Run)
		fmt.Printf("program %s: points=%d steps=%d threads=%d vtime=%v outcome=%s deadlock=%q panics=%v failures=%v leaked=%v horizon=%q\n", a, len(res.Points), res.Steps, res.Threads, res.EndTime, res.Outcome, res.Deadlock, res.Panics, res.Failures, res.Leaked, res.Horizon)
		r.Finish()
	}
	if r.ReplayFile != "" {
		var rc struct {
			Arg     string `json:"arg"`
			Choices []int  `json:"choices"`
		}
		if err := r.LoadReplay(&rc); err != nil {
			r.EngineError("replay: %v", err)
			r.Finish()
		}
		ps, stable, res := vx.Replay(scenario(rc.Arg), rc.Choices)
		fmt.Println("stable:", stable, "outcome:", res.Outcome)
		for _, p := range ps {
			r.Violation("replayed:"+classify(p), p, rc)
		}
		r.Finish()
	}
	var all, core []prog
	for _, sz := range []byte{'s', 'm', 'x'} {
		all = append(all, prog{C: []int{1, 1}, Size: sz}, prog{C: []int{2, 2}, Size: sz}, prog{C: []int{1, 1, 1}, Size: sz},
			prog{S: []int{1, 1}, Size: sz}, prog{S: []int{2, 1}, Size: sz}, prog{C: []int{1, 1}, S: []int{1, 1}, Size: sz}, prog{C: []int{2}, S: []int{1, 1}, Size: sz})
	}
	all = append(all, prog{C: []int{1, 1}, S: []int{1}, Size: 's', Hidden: true}, prog{S: []int{1, 1}, Size: 's', Hidden: true})
	core = []prog{{C: []int{1, 1}, Size: 's'}, {S: []int{1, 1}, Size: 's'}, {C: []int{2, 1}, Size: 's'}}
	if r.Thorough() {
		core = append(core, prog{C: []int{1, 1}, S: []int{1, 1}, Size: 's'})
	}
	type phase struct {
		name   string
		progs  []prog
		bounds vx.Bounds
		total  int
		window int
	}
	phases := []phase{{"all programs, one deviation of any kind", all, vx.Bounds{1, 1, 1, 1, 0}, 1, 0}, {"core programs, two deviations anywhere", core, vx.Bounds{2, 2, 2, 1, 0}, 2, 0}}
	if r.Thorough() {
		var small []prog
		for _, p := range all {
			if p.Size == 's' {
				small = append(small, p)
			}
		}
		phases = []phase{{"all programs, one deviation of any kind", all, vx.Bounds{1, 1, 1, 1, 0}, 1, 0}, {"9-byte-message programs, two deviations anywhere", small, vx.Bounds{2, 2, 2, 1, 0}, 2, 0}, {"core programs, three deviations among the first 120 choice points", core, vx.Bounds{3, 3, 3, 1, 0}, 3, 120}}
	}
	var execs, points int64
	traces := 0
	outcomes := 0
	for _, ph := range phases {
		e := &vx.Explorer{Bounds: ph.bounds, Total: ph.total, Window: ph.window, MaxExec: 3000000, Deadline: r.Deadline}
		var phExec int64
		for i, p := range ph.progs {
			if r.Expired() {
				r.Cap(fmt.Sprintf("budget expired in phase %q after %d of %d programs", ph.name, i, len(ph.progs)))
				break
			}
			st := e.Explore("writers", p.String(), r.Workers)
			execs += st.Executions
			phExec += st.Executions
			points += st.Points
			traces += st.NTraces
			outcomes += len(st.Outcomes)
			if st.Capped {
				r.Cap("execution cap / budget hit for program " + p.String())
			}
			r.Distinct(ph.name + p.String())
			for _, pr := range st.Problems {
				if strings.HasPrefix(pr.What, "ENGINE:") {
					r.EngineError("%s: %s", p, pr.What)
					continue
				}
				ps, stable, _ := vx.Replay(scenario(p.String()), pr.Choices)
				if !stable || len(ps) == 0 {
					r.EngineError("violation did not reproduce deterministically for %s: %s", p, pr.What)
					continue
				}
				r.Violation("writers:"+classify(pr.What)+":"+p.String(), fmt.Sprintf("%s | program: client writers %v, server writers %v, size class %c, hidden=%v | bounds %v | schedule: %d choices", pr.What, p.C, p.S, p.Size, p.Hidden, ph.bounds, len(pr.Choices)), map[string]any{"arg": p.String(), "choices": pr.Choices})
			}
			if os.Getenv("VERIF_VERBOSE") != "" {
				fmt.Printf("phase %q prog %s exec=%d maxpoints=%d problems=%d outcomes=%d\n", ph.name, p, st.Executions, st.MaxPoints, len(st.Problems), len(st.Outcomes))
			}
		}
		r.SampleForce(map[string]any{"part": "concurrent writers", "phase": ph.name, "programs": len(ph.progs), "bounds": ph.bounds.String(), "total_deviations": ph.total, "deviation_window": ph.window, "executions": phExec})
	}
	r.EvalN(execs)
	r.Graph(int64(traces), points, execs)
	r.Set("writer_programs", len(all))
	r.SetRule("concurrent writers: a real transport client and server (packages transport and common rewritten for the deterministic scheduler and virtual clock) over a faithful in-memory datagram network; after the handshake 2..3 writer threads on the client and/or 1..2 on the server handle write 1..2 distinct messages each (9 bytes, 1000 bytes, the maximum plaintext size) while one reader per side reads; every schedule within the phase's deviation bounds. Oracles: each Write returns its full length and no error; the messages read on each side are exactly the multiset written by the peer's writers (nothing lost to a reused counter, nothing twice, nothing foreign), each writer's messages in its own order; no deadlock, panic or call that never returns.")
	r.Finish()
}
