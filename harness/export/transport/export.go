//go:build verif

package transport

import (
	"crypto/rand"
	"time"

	"hop.computer/hop/certs"
)

// White-box access for the verification harness (overlay-injected, never committed to /repo).

type VerifSession struct {
	ID          SessionID
	C2S, S2C    [KeyLen]byte
	RemoteAddr  string
	Established bool // keys derived and a handle exists
	Closed      bool
	RecvLen     int
	Hidden      bool
}

func snapshot(ss *SessionState) VerifSession {
	ss.m.Lock()
	defer ss.m.Unlock()
	v := VerifSession{ID: ss.sessionID, C2S: ss.clientToServerKey, S2C: ss.serverToClientKey,
		Established: ss.handle != nil && ss.readKey != nil, Closed: ss.handleState == closed, Hidden: ss.isHiddenHS}
	if ss.remoteAddr != nil {
		v.RemoteAddr = ss.remoteAddr.String()
	}
	if ss.handle != nil {
		v.RecvLen = len(ss.handle.recv.C)
	}
	return v
}

// VerifCounts returns the sizes of the server's per-client tables.
func (s *Server) VerifCounts() (handshakes, sessions, pending int) {
	s.m.RLock()
	defer s.m.RUnlock()
	return len(s.handshakes), len(s.sessions), len(s.pendingConnections)
}

func (s *Server) VerifSessions() []VerifSession {
	s.m.RLock()
	var list []*SessionState
	for _, ss := range s.sessions {
		list = append(list, ss)
	}
	s.m.RUnlock()
	var out []VerifSession
	for _, ss := range list {
		out = append(out, snapshot(ss))
	}
	return out
}

// VerifRotateCookieKey performs the cookie-key rotation step of the Serve ticker.
func (s *Server) VerifRotateCookieKey() {
	s.cookieLock.Lock()
	rand.Read(s.cookieKey[:])
	s.cookieLock.Unlock()
}

// VerifSession returns the client's session once the handshake has completed.
func (c *Client) VerifSession() (VerifSession, bool) {
	if c.state.Load() != clientStateOpen || c.ss == nil {
		return VerifSession{}, false
	}
	return snapshot(c.ss), true
}

func (c *Client) VerifHandle() *Handle {
	if c.ss == nil {
		return nil
	}
	return c.ss.handle
}

func (h *Handle) VerifSession() VerifSession { return snapshot(h.ss) }

// VerifRecvLen is the number of decrypted messages queued for the reader (plus 1 if a partially
// read message is buffered).
func (h *Handle) VerifRecvLen() int {
	n := len(h.recv.C)
	h.readLock.Lock()
	if h.buf.Len() > 0 {
		n++
	}
	h.readLock.Unlock()
	return n
}

// VerifOpen reports whether the client's handshake has succeeded (state open or later closed
// after having been open is not distinguished: only open counts).
func (c *Client) VerifOpen() bool { return c.state.Load() == clientStateOpen }

// VerifClientNow is the clock read by the hidden-mode request writer when the check-time
// source seam is active (see checks.json "rewrites"); it defaults to the real clock.
var VerifClientNow func() int64

func verifClientNow() int64 {
	if VerifClientNow != nil {
		return VerifClientNow()
	}
	return time.Now().Unix()
}

// VerifClientCerts, when set, substitutes the raw certificate bytes an otherwise honest client
// sends in its client auth / hidden request (check-time source seam "client-certs").
var VerifClientCerts func(leaf, intermediate []byte) ([]byte, []byte)

func verifClientCerts(leaf, intermediate []byte, err error) ([]byte, []byte, error) {
	if err == nil && VerifClientCerts != nil {
		leaf, intermediate = VerifClientCerts(leaf, intermediate)
	}
	return leaf, intermediate, err
}

// VerifHandleWithLeaf is a Handle that only answers FetchClientLeaf (for handler-level harnesses).
func VerifHandleWithLeaf(leaf *certs.Certificate) *Handle { return &Handle{clientLeaf: leaf} }
