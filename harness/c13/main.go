// C13 — Cyclist duplex vs the specification: all programs over the duplex API up to a depth,
// over boundary operand lengths and key/id/counter initialisations, compared op by op with
// refcyclist (outputs and full internal state), plus the encrypt/decrypt twin staying in sync.
// Built twice (assembly and generic permutation).
package main

import (
	"bufio"
	"bytes"
	"encoding/binary"
	"encoding/hex"
	"flag"
	"fmt"
	"hash/fnv"
	"os"
	"path/filepath"
	"strings"
	"sync"

	"hop.computer/hop/cyclist"
	"hop.computer/hop/zzverif/refcyclist"
	"hop.computer/hop/zzverif/refkeccak"
	"hop.computer/hop/zzverif/vk"
)

var genericBin = flag.String("bin-generic", "", "path of the same harness built with the generic permutation")

type opKind int

const (
	opAbsorb opKind = iota
	opEncrypt
	opDecrypt
	opSqueeze
	opSqueezeKey
	opRatchet
)

var kindName = []string{"Absorb", "Encrypt", "Decrypt", "Squeeze", "SqueezeKey", "Ratchet"}

type op struct {
	K opKind `json:"k"`
	N int    `json:"n"`
}

func (o op) String() string {
	if o.K == opRatchet {
		return "Ratchet"
	}
	return fmt.Sprintf("%s(%d)", kindName[o.K], o.N)
}

type initCfg struct {
	Key, ID, Ctr int // lengths; Key==0 => hash mode
	// Used: the objects are not fresh when they are initialised: 1 = they were a hash object whose
	// last call was an Absorb (phase down), 2 = a keyed object whose last call was an Encrypt,
	// 3 = a keyed object whose last call was a Squeeze (phase up)
	Used int `json:"used,omitempty"`
}

func (i initCfg) String() string {
	u := ""
	if i.Used != 0 {
		u = fmt.Sprintf("+reinitialised-after-use-%d", i.Used)
	}
	if i.Key == 0 {
		return "hash" + u
	}
	return fmt.Sprintf("keyed(k=%d,id=%d,ctr=%d)%s", i.Key, i.ID, i.Ctr, u)
}

// use puts an object into a used state before it is initialised (again).
func use(c *cyclist.Cyclist, how int) {
	buf := make([]byte, 9)
	switch how {
	case 1:
		c.InitializeEmpty()
		c.Absorb(fill(9, 7))
	case 2:
		c.Initialize(fill(16, 8), nil, nil)
		c.Encrypt(buf, fill(9, 9))
	case 3:
		c.Initialize(fill(16, 8), nil, nil)
		c.Absorb(fill(3, 1))
		c.Squeeze(buf)
	}
}

type prog struct {
	Init initCfg `json:"init"`
	Ops  []op    `json:"ops"`
}

func fill(n int, salt int) []byte {
	b := make([]byte, n)
	for i := range b {
		b[i] = byte(i*7 + salt*13 + 1)
	}
	return b
}

// implState renders the implementation's whole internal state via fmt (unexported fields are
// printed by reflection); refState renders the reference in the same format.
func implState(c *cyclist.Cyclist) string { return fmt.Sprint(*c) }

func refState(c *refcyclist.C) string {
	ph, mode := 1, 0
	if c.Up {
		ph = 0
	}
	if c.Keyed {
		mode = 1
	}
	var lanes [25]uint64
	for i := range lanes {
		lanes[i] = binary.LittleEndian.Uint64(c.S[8*i:])
	}
	return fmt.Sprint(struct {
		a, b, c, d int
		s          [25]uint64
	}{ph, mode, 136, 136, lanes})
}

type node struct {
	impl cyclist.Cyclist // object under test
	twin cyclist.Cyclist // second real object that mirrors every op with Encrypt<->Decrypt swapped
	ref  refcyclist.C
}

func newNode(ic initCfg) *node {
	n := &node{}
	use(&n.impl, ic.Used)
	use(&n.twin, ic.Used)
	if ic.Key == 0 {
		n.impl.InitializeEmpty()
		n.twin.Initialize(nil, nil, nil)
		n.ref = *refcyclist.New()
		return n
	}
	k, id, ctr := fill(ic.Key, 101), fill(ic.ID, 102), fill(ic.Ctr, 103)
	n.impl.Initialize(k, id, ctr)
	n.twin.Initialize(k, id, ctr)
	n.ref = *refcyclist.NewKeyed(k, id, ctr)
	return n
}

// apply executes o on impl, twin and reference; returns a non-empty string on disagreement.
func (n *node) apply(o op, depth int) string {
	in := fill(o.N, depth)
	keyedOnly := o.K == opEncrypt || o.K == opDecrypt || o.K == opSqueezeKey || o.K == opRatchet
	if !n.ref.Keyed && keyedOnly {
		before := implState(&n.impl)
		pn := vk.Try(func() {
			buf := make([]byte, o.N)
			switch o.K {
			case opEncrypt:
				n.impl.Encrypt(buf, in)
			case opDecrypt:
				n.impl.Decrypt(buf, in)
			case opSqueezeKey:
				n.impl.SqueezeKey(buf)
			case opRatchet:
				n.impl.Ratchet()
			}
		})
		if pn == "" {
			return fmt.Sprintf("%v in hash mode did not refuse (documented: panics)", o)
		}
		if implState(&n.impl) != before {
			return fmt.Sprintf("%v in hash mode changed the state before refusing", o)
		}
		return ""
	}
	var got, twinGot, want []byte
	switch o.K {
	case opAbsorb:
		n.impl.Absorb(in)
		n.twin.Absorb(in)
		n.ref.Absorb(in)
	case opEncrypt:
		got = make([]byte, o.N)
		n.impl.Encrypt(got, in)
		want, _ = n.ref.Encrypt(in)
		twinGot = make([]byte, o.N)
		n.twin.Decrypt(twinGot, got)
		if !bytes.Equal(twinGot, in) {
			return fmt.Sprintf("%v: twin Decrypt of the ciphertext does not return the plaintext", o)
		}
		twinGot = nil
	case opDecrypt:
		got = make([]byte, o.N)
		n.impl.Decrypt(got, in)
		want, _ = n.ref.Decrypt(in)
		// twin encrypts the recovered plaintext: must reproduce the ciphertext
		twinGot = make([]byte, o.N)
		n.twin.Encrypt(twinGot, got)
		if !bytes.Equal(twinGot, in) {
			return fmt.Sprintf("%v: twin Encrypt of the recovered plaintext does not reproduce the ciphertext", o)
		}
		twinGot = nil
	case opSqueeze:
		got, twinGot = make([]byte, o.N), make([]byte, o.N)
		n.impl.Squeeze(got)
		n.twin.Squeeze(twinGot)
		want = n.ref.Squeeze(o.N)
	case opSqueezeKey:
		got, twinGot = make([]byte, o.N), make([]byte, o.N)
		n.impl.SqueezeKey(got)
		n.twin.SqueezeKey(twinGot)
		want, _ = n.ref.SqueezeKey(o.N)
	case opRatchet:
		n.impl.Ratchet()
		n.twin.Ratchet()
		n.ref.Ratchet()
	}
	if !bytes.Equal(got, want) {
		return fmt.Sprintf("%v: output differs from the specification (first bytes got %x want %x)", o, head(got), head(want))
	}
	if twinGot != nil && !bytes.Equal(got, twinGot) {
		return fmt.Sprintf("%v: twin object produced a different output (out of sync)", o)
	}
	if is, rs := implState(&n.impl), refState(&n.ref); is != rs {
		return fmt.Sprintf("%v: internal state differs from the specification's", o)
	}
	if n.impl != n.twin {
		return fmt.Sprintf("%v: twin object state differs (out of sync)", o)
	}
	return ""
}

func head(b []byte) []byte {
	if len(b) > 8 {
		return b[:8]
	}
	return b
}

func runProg(p prog) string {
	n := newNode(p.Init)
	if is, rs := implState(&n.impl), refState(&n.ref); is != rs {
		return "initialisation: state differs from the specification's"
	}
	for d, o := range p.Ops {
		if bad := n.apply(o, d); bad != "" {
			return fmt.Sprintf("op %d %s", d, bad)
		}
	}
	return ""
}

func progKey(p prog) string {
	var s []string
	for _, o := range p.Ops {
		s = append(s, o.String())
	}
	return p.Init.String() + ":" + strings.Join(s, ",")
}

// anchor replays the XKCP transcript shipped with the repository on the reference.
func anchor() error {
	if err := refkeccak.Validate(); err != nil {
		return err
	}
	f, err := os.Open(filepath.Join(os.Getenv("VERIF_REPO"), "cyclist/testdata/xkcp.txt"))
	if err != nil {
		return err
	}
	defer f.Close()
	key := make([]byte, 32)
	for i := range key {
		key[i] = byte(i)
	}
	c := refcyclist.NewKeyed(key, nil, nil)
	sc := bufio.NewScanner(f)
	var lastPlain []byte
	n := 0
	for sc.Scan() {
		line := strings.TrimSpace(sc.Text())
		if line == "" {
			continue
		}
		i := strings.Index(line, ":")
		if i < 0 {
			return fmt.Errorf("bad transcript line %q", line)
		}
		act := line[:strings.Index(line, "[")]
		data, err := hex.DecodeString(strings.ReplaceAll(strings.TrimSpace(line[i+1:]), " ", ""))
		if err != nil {
			return err
		}
		switch act {
		case "absorb":
			c.Absorb(data)
		case "squeeze":
			if got := c.Squeeze(len(data)); !bytes.Equal(got, data) {
				return fmt.Errorf("reference disagrees with XKCP squeeze at entry %d", n)
			}
		case "encrypt-ir", "encrypt-ri":
			lastPlain = data
		case "decrypt-ir", "decrypt-ri":
			ct, _ := c.Encrypt(lastPlain)
			if !bytes.Equal(ct, data) {
				return fmt.Errorf("reference disagrees with XKCP ciphertext at entry %d", n)
			}
		default:
			return fmt.Errorf("unknown transcript action %q", act)
		}
		n++
	}
	if n < 4 {
		return fmt.Errorf("XKCP transcript too short (%d entries)", n)
	}
	return nil
}

func main() {
	r := vk.New("C13", "exploration")
	if err := anchor(); err != nil {
		r.EngineError("reference not anchored: %v", err)
		r.Finish()
	}
	if r.ReplayFile != "" {
		var p prog
		if err := r.LoadReplay(&p); err != nil {
			r.EngineError("replay: %v", err)
		} else if bad := runProg(p); bad != "" {
			r.Violation("prog:"+progKey(p), bad, p)
		}
		r.Finish()
	}
	lens := []int{0, 1, 135, 136, 137, 271, 272, 273}
	var alpha []op
	for k := opAbsorb; k <= opSqueezeKey; k++ {
		for _, n := range lens {
			alpha = append(alpha, op{k, n})
		}
	}
	alpha = append(alpha, op{opRatchet, 0})
	inits := []initCfg{{}}
	for _, k := range []int{1, 16, 32} {
		for _, id := range []int{0, 5, 35} {
			for _, c := range []int{0, 1, 8} {
				inits = append(inits, initCfg{Key: k, ID: id, Ctr: c})
			}
		}
	}
	// extreme packing: key+id+1 exactly fills the 136-byte key block
	inits = append(inits, initCfg{Key: 100, ID: 35, Ctr: 1}, initCfg{Key: 135}, initCfg{Key: 32, Ctr: 300})
	// initialisation of an object that has been used before (must equal a fresh one)
	for u := 1; u <= 3; u++ {
		inits = append(inits, initCfg{Used: u}, initCfg{Key: 16, ID: 5, Ctr: 1, Used: u})
	}
	depth := 3
	if r.Thorough() {
		depth = 4
	}
	r.SetRule(fmt.Sprintf("all programs of <=%d ops over %d API operations (Absorb/Encrypt/Decrypt/Squeeze/SqueezeKey x operand lengths %v, Ratchet) from %d initialisations (hash; keyed with |key| x |id| x |counter| grid; six of them on objects that were used before - last call Absorb / Encrypt / Squeeze - and must equal fresh ones); after every op outputs and the full 200-byte state + phase/mode are compared with refcyclist, and a second real object mirroring the ops with Encrypt<->Decrypt swapped must stay identical; both the assembly and the generic permutation build; plus a direct permutation differential. distinct_nontrivial = distinct final internal states reached (hashed), measured.", depth, len(alpha), lens, len(inits)))

	// direct permutation differential against refkeccak on structured states
	permCases := 0
	{
		var states [][25]uint64
		states = append(states, [25]uint64{})
		var ones [25]uint64
		for i := range ones {
			ones[i] = ^uint64(0)
		}
		states = append(states, ones)
		for bit := 0; bit < 1600; bit++ {
			var s [25]uint64
			s[bit/64] = 1 << (bit % 64)
			states = append(states, s)
			s2 := ones
			s2[bit/64] ^= 1 << (bit % 64)
			states = append(states, s2)
		}
		for l := 0; l < 25; l++ {
			var s [25]uint64
			s[l] = ^uint64(0)
			states = append(states, s)
			s[l] = 0x0123456789abcdef
			states = append(states, s)
		}
		// chained
		var s [25]uint64
		for i := 0; i < 2000; i++ {
			states = append(states, s)
			refkeccak.PLanes(&s, 12)
			s[i%25] ^= uint64(i) * 0x9e3779b97f4a7c15
		}
		for _, s0 := range states {
			a, b := s0, s0
			cyclist.VerifPermute(&a)
			refkeccak.PLanes(&b, 12)
			permCases++
			r.Eval()
			if a != b {
				r.Violation("perm:differs", fmt.Sprintf("keccakF1600 differs from Keccak-p[1600,12] on state %x...", s0[:2]), s0)
				break
			}
		}
	}
	r.Set("permutation_states_compared", permCases)

	// DFS with cloning: nodes are plain values.
	type job struct {
		init  initCfg
		first op
	}
	var jobs []job
	for _, ic := range inits {
		for _, o := range alpha {
			jobs = append(jobs, job{ic, o})
		}
	}
	var mu sync.Mutex
	finals := map[uint64]struct{}{}
	r.Parallel(len(jobs), func(i int) {
		j := jobs[i]
		local := map[uint64]struct{}{}
		root := newNode(j.init)
		if is, rs := implState(&root.impl), refState(&root.ref); is != rs {
			r.Violation("init:"+j.init.String(), "initialisation: state differs from the specification's", prog{Init: j.init})
			return
		}
		path := make([]op, 0, depth)
		var rec func(n *node, d int)
		rec = func(n *node, d int) {
			var ops []op
			if d == 0 {
				ops = []op{j.first}
			} else {
				ops = alpha
			}
			for _, o := range ops {
				c := *n
				path = append(path, o)
				r.Eval()
				if bad := c.apply(o, d); bad != "" {
					p := prog{Init: j.init, Ops: append([]op{}, path...)}
					r.Violation("prog:"+progKey(p), fmt.Sprintf("op %d %s", d, bad), p)
				} else if d+1 < depth && !(c.ref.Keyed == false && (o.K != opAbsorb && o.K != opSqueeze)) {
					rec(&c, d+1)
				} else if d+1 == depth {
					h := fnv.New64a()
					h.Write(c.ref.S[:])
					local[h.Sum64()] = struct{}{}
					if i%97 == 0 && o.N == 137 {
						r.Sample(progKey(prog{Init: j.init, Ops: append([]op{}, path...)}))
					}
				}
				path = path[:len(path)-1]
				if r.NumViolations() > 50 {
					return
				}
			}
		}
		rec(root, 0)
		mu.Lock()
		for k := range local {
			finals[k] = struct{}{}
		}
		mu.Unlock()
	})
	for k := range finals {
		r.Distinct(fmt.Sprint(k))
	}
	r.Set("build", buildName())
	if *genericBin != "" {
		r.RunChild("generic", *genericBin)
	}
	r.Assume("refcyclist/refkeccak are written from the Xoodyak paper and FIPS 202; anchored to x/crypto/sha3 and to the repository's XKCP transcript before use")
	r.Finish()
}
