// C10 — no unauthenticated datagram can crash or wedge a transport endpoint.
// Junk derived from captured valid datagrams of every type (every truncation, field mutations,
// copied public headers, raw lengths) is delivered to real endpoints in every state and server
// configuration, in crash-isolating worker processes; afterwards established sessions must
// still work and a fresh honest handshake must succeed.
package main

import (
	"bytes"
	"flag"
	"fmt"
	"net"
	"os"
	"strings"
	"sync"
	"time"

	"hop.computer/hop/certs"
	"hop.computer/hop/config"
	"hop.computer/hop/hopserver"
	"hop.computer/hop/keys"
	"hop.computer/hop/kravatte"
	"hop.computer/hop/transport"
	"hop.computer/hop/zzverif/fix"
	"hop.computer/hop/zzverif/simnet"
	"hop.computer/hop/zzverif/vk"
)

// ---------- server configurations ----------

type srvCfg struct {
	Name   string
	Hidden bool // honest clients use the hidden handshake
}

var cfgs = []srvCfg{{"single-cert", false}, {"two-vhosts", false}, {"hidden-one-cert", true}, {"hidden-two-certs", true}}

var seams = flag.String("seams", "", "source seams applied by the driver")

func hasSeam(n string) bool {
	for _, s := range strings.Split(*seams, ",") {
		if s == n {
			return true
		}
	}
	return false
}

var listenMu sync.Mutex

// startServer starts configuration ci in world w. With the hopserver-listen seam the two
// multi-certificate configurations are built by the real hopserver.NewHopServer (its own
// GetCertificate / GetCertList closures and client-verification policy) on a simulated socket;
// otherwise by the mirrored closures of serverConfig.
func (s *setupT) startServer(w *fix.World, ci int) (*fix.ServerEnd, error) {
	multi := cfgs[ci].Name == "two-vhosts" || cfgs[ci].Name == "hidden-two-certs"
	if !multi || !hasSeam("hopserver-listen") {
		return w.StartServer(s.serverConfig(ci), s.std.ServerAdr)
	}
	std := s.std
	sc := &config.ServerConfig{ListenAddress: "simulated", HandshakeTimeout: 24 * time.Hour, CACerts: []*certs.Certificate{std.PKI.Root},
		Names: []config.NameConfig{
			{Pattern: "*.b.example", Key: s.key2, Certificate: s.leaf2, Intermediate: std.PKI.Inter, KEMKey: s.kem2},
			{Pattern: "srv.example", Key: std.SrvKey, Certificate: std.SrvLeaf, Intermediate: std.PKI.Inter, KEMKey: std.SrvKEM},
		}}
	if cfgs[ci].Hidden {
		sc.HiddenModeVHostNames = []string{"x.b.example", "srv.example"}
	}
	listenMu.Lock()
	defer listenMu.Unlock()
	var conn *simnet.Conn
	hopserver.VerifListen = func(string) (transport.UDPLike, error) {
		conn = w.Net.Listen(std.ServerAdr, true)
		return conn, nil
	}
	defer func() { hopserver.VerifListen = nil }()
	hs, err := hopserver.NewHopServer(sc)
	if err != nil {
		return nil, err
	}
	return w.AdoptServer(hs.Server, conn, std.ServerAdr), nil
}

type setupT struct {
	std   *fix.Std
	key2  *keys.X25519KeyPair
	kem2  *keys.KEMKeyPair
	leaf2 *certs.Certificate
}

func newSetup() *setupT {
	s := &setupT{std: fix.NewStd(), key2: keys.GenerateNewX25519KeyPair(), kem2: fix.NewKEM()}
	s.leaf2 = s.std.PKI.LeafFor(s.key2.Public, certs.DNSName("x.b.example"))
	return s
}

// serverConfig builds configuration ci. Virtual hosts go through the real
// hopserver.NewVirtualHosts / VirtualHosts.Match (and thus glob.Glob); the two closures mirror
// the ones NewHopServer installs.
func (s *setupT) serverConfig(ci int) transport.ServerConfig {
	std := s.std
	base := std.ServerConfig(cfgs[ci].Hidden)
	switch cfgs[ci].Name {
	case "single-cert", "hidden-one-cert":
		return base
	}
	sc := &config.ServerConfig{Names: []config.NameConfig{
		{Pattern: "*.b.example", Key: s.key2, Certificate: s.leaf2, Intermediate: std.PKI.Inter, KEMKey: s.kem2},
		{Pattern: "srv.example", Key: std.SrvKey, Certificate: std.SrvLeaf, Intermediate: std.PKI.Inter, KEMKey: std.SrvKEM},
	}}
	vhosts, err := hopserver.NewVirtualHosts(sc, nil, nil)
	if err != nil {
		panic(err)
	}
	base.KeyPair, base.KEMKeyPair, base.Certificate, base.Intermediate = nil, nil, nil, nil
	base.GetCertificate = func(info transport.ClientHandshakeInfo) (*transport.Certificate, error) {
		if h := vhosts.Match(string(info.ServerName.Label)); h != nil {
			return &h.Certificate, nil
		}
		return nil, fmt.Errorf("%v did not match a host block", info.ServerName)
	}
	names := []string{"x.b.example", "srv.example"}
	base.GetCertList = func() ([]*transport.Certificate, error) {
		var out []*transport.Certificate
		for _, n := range names {
			if h := vhosts.Match(n); h != nil {
				if len(h.Certificate.HostNames) == 0 {
					h.Certificate.HostNames = append(h.Certificate.HostNames, n)
				}
				out = append(out, &h.Certificate)
			}
		}
		return out, nil
	}
	if cfgs[ci].Hidden {
		base.HiddenModeVHostNames = names
	}
	return base
}

// ---------- junk ----------

type junk struct {
	Base string `json:"base"` // captured datagram name, or "raw" / "hdr"
	Op   string `json:"op"`
	A    int    `json:"a"`
	B    int    `json:"b"`
}

func (j junk) String() string { return fmt.Sprintf("%s.%s(%d,%d)", j.Base, j.Op, j.A, j.B) }

// Stimuli that need valid MACs are produced by an otherwise honest client: Base "sni" asks for
// an unusual server name (index A into sniNames), Base "clientcert" presents altered raw
// certificate bytes (index A into certMods) through the client-certs seam.
var sniNames = []certs.Name{
	{Type: certs.TypeDNSName, Label: []byte("nomatch.example")}, {Type: certs.TypeRaw, Label: []byte("nomatch")},
	{Type: 0x7f, Label: []byte("srv.example")}, {Type: 0x7f, Label: []byte("nomatch")}, {Type: 0xff, Label: []byte{}},
	{Type: certs.TypeDNSName, Label: []byte{}}, {Type: certs.TypeDNSName, Label: bytes.Repeat([]byte("a"), 252)},
	{Type: certs.TypeDNSName, Label: []byte("*")}, {Type: certs.TypeDNSName, Label: []byte("**a*")}, {Type: certs.TypeDNSName, Label: []byte("x.b.example")},
	{Type: certs.TypeIPv4Address, Label: []byte{10, 0, 0, 1}}, {Type: certs.TypeIPv4Address, Label: []byte{1, 2, 3}}, {Type: certs.TypeIPv6Address, Label: make([]byte, 16)},
	{Type: certs.TypeRaw, Label: []byte{0, 0xff, 0xfe}},
}

type certMod struct {
	name string
	f    func(leaf, inter []byte) ([]byte, []byte)
}

var certMods = func() []certMod {
	var m []certMod
	cut := func(n int) certMod {
		return certMod{fmt.Sprintf("leaf-cut-%d", n), func(l, i []byte) ([]byte, []byte) {
			if n < 0 {
				return l[:len(l)+n], i
			}
			if n > len(l) {
				return l, i
			}
			return l[:n], i
		}}
	}
	// field boundaries of a certificate: header 4, times 12/20, key 52, parent 84, chunk length 86, then names, signature
	for _, n := range []int{1, 2, 4, 5, 12, 20, 51, 52, 84, 85, 86, 87, 89, -64, -65, -1} {
		m = append(m, cut(n))
	}
	m = append(m, certMod{"leaf-trailing-byte", func(l, i []byte) ([]byte, []byte) { return append(append([]byte{}, l...), 0), i }},
		certMod{"leaf-zeros-600", func(l, i []byte) ([]byte, []byte) { return make([]byte, 600), i }},
		certMod{"leaf-chunklen-ffff", func(l, i []byte) ([]byte, []byte) {
			x := append([]byte{}, l...)
			x[84], x[85] = 0xff, 0xff
			return x, i
		}},
		certMod{"leaf-chunklen-0", func(l, i []byte) ([]byte, []byte) {
			x := append([]byte{}, l...)
			x[84], x[85] = 0, 0
			return x, i
		}},
		certMod{"leaf-type-0", func(l, i []byte) ([]byte, []byte) {
			x := append([]byte{}, l...)
			x[1] = 0
			return x, i
		}},
		certMod{"inter-cut-1", func(l, i []byte) ([]byte, []byte) { return l, i[:1] }},
		certMod{"inter-cut-4", func(l, i []byte) ([]byte, []byte) { return l, i[:4] }},
		certMod{"inter-cut-84", func(l, i []byte) ([]byte, []byte) { return l, i[:84] }},
		certMod{"inter-is-leaf", func(l, i []byte) ([]byte, []byte) { return l, l }},
		certMod{"leaf-is-inter", func(l, i []byte) ([]byte, []byte) { return i, i }},
		certMod{"inter-zeros-1", func(l, i []byte) ([]byte, []byte) { return l, []byte{0} }},
	)
	return m
}()

// capture names -> datagram bytes of this world's own traffic
type capture map[string][]byte

var typeNames = map[byte]string{1: "CH", 2: "SH", 3: "CAck", 4: "SAuth", 5: "CAuth", 8: "CReqH", 9: "SRespH", 0x10: "Data"}

func (j junk) build(c capture, liveSid, otherSid [4]byte) []byte {
	switch j.Base {
	case "raw":
		b := bytes.Repeat([]byte{byte(j.B)}, j.A)
		if len(b) > 0 && j.Op != "" {
			var t int
			fmt.Sscanf(j.Op, "%x", &t)
			b[0] = byte(t)
		}
		return b
	case "sealed": // a session message sealed correctly under a guessable key
		var sid []byte
		switch j.A / 256 {
		case 0:
			sid = liveSid[:]
		case 1:
			sid = otherSid[:]
		default:
			sid = c["__half-open-session-id"]
		}
		if len(sid) != 4 || bytes.Equal(sid, []byte{0, 0, 0, 0}) {
			return nil
		}
		key := make([]byte, transport.KeyLen)
		if j.Op == "onekey" {
			key = bytes.Repeat([]byte{0xff}, transport.KeyLen)
		}
		hdr := append([]byte{byte(j.A % 256), 0, 0, 0}, sid...)
		hdr = append(hdr, 0, 0, 0, 0, 0, 0, 0, 7) // a fresh counter
		aead, err := kravatte.NewSANSE(key)
		if err != nil {
			return nil
		}
		return append(hdr, aead.Seal(nil, nil, bytes.Repeat([]byte{1}, j.B), hdr[:transport.AssociatedDataLen])...)
	case "hdr": // valid public header (type + live session id) + counter + body of zeros
		b := []byte{byte(j.A), 0, 0, 0}
		b = append(b, liveSid[:]...)
		return append(b, make([]byte, j.B)...)
	}
	d, ok := c[j.Base]
	if !ok {
		return nil
	}
	b := append([]byte{}, d...)
	switch j.Op {
	case "trunc":
		if j.A > len(b) {
			return nil
		}
		return b[:j.A]
	case "type":
		b[0] = byte(j.A)
	case "byte":
		if j.A >= len(b) {
			return nil
		}
		b[j.A] = byte(j.B)
	case "len16": // the 16-bit length field in header bytes 2..3
		v := j.A
		if j.B == 1 { // relative to the true value
			v = (int(b[2])<<8 | int(b[3])) + j.A
		}
		b[2], b[3] = byte(v>>8), byte(v)
	case "sid":
		if len(b) < 8 {
			return nil
		}
		switch j.A {
		case 0:
			copy(b[4:8], liveSid[:])
		case 1:
			copy(b[4:8], otherSid[:])
		default:
			copy(b[4:8], []byte{0xde, 0xad, 0xbe, 0xef})
		}
	case "ctr":
		if len(b) < 16 {
			return nil
		}
		vals := []uint64{0, 1, 2, 1 << 63, ^uint64(0), 1<<63 - 1}
		v := vals[j.A]
		for k := 0; k < 8; k++ {
			b[8+k] = byte(v >> (56 - 8*k))
		}
	case "extend":
		b = append(b, make([]byte, j.A)...)
	}
	return b
}

func alphabet(thorough bool, bases []string, lens map[string]int) []junk {
	var a []junk
	for _, base := range bases {
		n := lens[base]
		cut := map[int]bool{}
		if thorough {
			for l := 0; l < n; l++ {
				cut[l] = true
			}
		} else {
			for l := 0; l <= 60 && l < n; l++ {
				cut[l] = true
			}
			for l := 0; l < n; l += 64 {
				cut[l] = true
			}
			for l := n - 50; l < n; l++ {
				if l >= 0 {
					cut[l] = true
				}
			}
			// around the big fixed-size fields
			for _, fb := range []int{4 + 32, 4 + 800, 4 + 768, 4 + 32 + 800, 4 + 32 + 800 + 64, 4 + 800 + 768, 4 + 768 + 64} {
				for d := -1; d <= 1; d++ {
					if fb+d >= 0 && fb+d < n {
						cut[fb+d] = true
					}
				}
			}
		}
		for l := range cut {
			a = append(a, junk{Base: base, Op: "trunc", A: l})
		}
		for _, off := range []int{1, 2, 3} {
			for _, v := range []int{0, 1, 0x7f, 0xff} {
				a = append(a, junk{Base: base, Op: "byte", A: off, B: v})
			}
		}
		for _, v := range []int{0, 1, 0xffff, 0x8000} {
			a = append(a, junk{Base: base, Op: "len16", A: v})
		}
		for _, d := range []int{-1, 1, 2, 16, -16} {
			a = append(a, junk{Base: base, Op: "len16", A: d, B: 1})
		}
		for k := 0; k < 3; k++ {
			a = append(a, junk{Base: base, Op: "sid", A: k})
		}
		for _, e := range []int{1, 16} {
			a = append(a, junk{Base: base, Op: "extend", A: e})
		}
	}
	for _, base := range []string{"CH", "CAck", "Data", "CReqH"} {
		if lens[base] == 0 {
			continue
		}
		for v := 0; v < 256; v++ {
			a = append(a, junk{Base: base, Op: "type", A: v})
		}
	}
	for k := 0; k < 6; k++ {
		a = append(a, junk{Base: "Data", Op: "ctr", A: k})
	}
	for _, t := range []int{0x10, 0x80, 0x05, 0x04, 0x03, 0x00, 0xff} {
		for body := 0; body <= 44; body++ {
			a = append(a, junk{Base: "hdr", A: t, B: body})
		}
	}
	// session messages that are well-formed and correctly sealed, but under a key anybody can
	// guess (all zero / all 0xff): for a live session, another live session and the half-open
	// session of a handshake in progress (its id travels in clear in the server auth)
	for _, op := range []string{"zerokey", "onekey"} {
		for sid := 0; sid < 3; sid++ {
			for _, t := range []int{0x10, 0x80} {
				for _, n := range []int{0, 1, 5} {
					a = append(a, junk{Base: "sealed", Op: op, A: sid*256 + t, B: n})
				}
			}
		}
	}
	for _, l := range []int{0, 1, 2, 3, 4, 5, 7, 8, 15, 16, 31, 32, 33, 47, 48, 1472, 65507} {
		for _, fill := range []int{0x00, 0xff} {
			a = append(a, junk{Base: "raw", A: l, B: fill})
			for _, t := range []string{"01", "02", "03", "04", "05", "08", "09", "10", "80"} {
				a = append(a, junk{Base: "raw", Op: t, A: l, B: fill})
			}
		}
	}
	return a
}

// ---------- cases ----------

type group struct {
	Cfg    int    `json:"cfg"`
	Target string `json:"target"` // server-idle | server-midhs | server-est | server-closed | client-hs1 | client-hs2 | client-est
	Third  bool   `json:"from_third_address"`
}

func (g group) String() string {
	s := cfgs[g.Cfg].Name + ":" + g.Target
	if g.Third {
		s += ":third-addr"
	}
	return s
}

type caseT struct {
	G group  `json:"group"`
	J []junk `json:"junk"`
}

// live is one world in a given state.
type live struct {
	g            group
	w            *fix.World
	srv          *fix.ServerEnd
	E, X, O      *fix.ClientEnd // established, mid-handshake, other established
	hE           *transport.Handle
	cap          capture
	sidE, sO     [4]byte
	count        int
	applied      []junk
	st           *setupT
	clientPanics []string
}

var third = simnet.Addr("10.9.9.9", 999)

func build(st *setupT, g group) (*live, error) {
	l := &live{g: g, w: fix.NewWorld(), cap: capture{}, st: st}
	hidden := cfgs[g.Cfg].Hidden
	var err error
	l.srv, err = st.startServer(l.w, g.Cfg)
	if err != nil {
		return nil, err
	}
	rec := func(ord int, d *simnet.Datagram) []*simnet.Datagram {
		if n, ok := typeNames[d.Data[0]]; ok {
			if _, have := l.cap[n]; !have {
				l.cap[n] = append([]byte{}, d.Data...)
			}
		}
		return nil
	}
	newClient := func(port int) *fix.ClientEnd {
		return l.w.NewClient(st.std.ClientConfig(hidden), simnet.Addr("10.0.0.2", port), st.std.ServerAdr)
	}
	needEst := g.Target == "server-est" || g.Target == "server-closed" || g.Target == "client-est" || g.Target == "server-midhs"
	if needEst {
		l.E = newClient(4000)
		l.E.Start()
		if err := l.w.Pump(rec); err != nil {
			return nil, err
		}
		if !l.E.Completed() {
			_, e := l.E.Result()
			return nil, fmt.Errorf("baseline handshake failed: %v", e)
		}
		l.hE = l.srv.Accept()
		if l.hE == nil {
			return nil, fmt.Errorf("no handle")
		}
		s, _ := l.E.C.VerifSession()
		l.sidE = s.ID
		l.E.C.WriteMsg([]byte("hello"))
		l.w.Pump(rec)
		buf := make([]byte, 10)
		l.hE.ReadMsg(buf)
		l.hE.WriteMsg([]byte("world"))
		if d := l.w.Net.Pop(); d != nil {
			l.cap["DataS2C"] = append([]byte{}, d.Data...)
			l.w.Net.DeliverD(d)
			l.w.Net.WaitQuiescent()
			l.E.C.ReadMsg(buf)
		}
		l.O = newClient(4002)
		l.O.Start()
		l.w.Pump(nil)
		if so, ok := l.O.C.VerifSession(); ok {
			l.sO = so.ID
		}
		for h := l.srv.Accept(); h != nil; h = l.srv.Accept() {
		}
	} else {
		// captured traffic comes from a sacrificial world with the same configuration
		sw := fix.NewWorld()
		ssrv, err := st.startServer(sw, g.Cfg)
		if err != nil {
			return nil, err
		}
		c := sw.NewClient(st.std.ClientConfig(hidden), simnet.Addr("10.0.0.2", 4000), st.std.ServerAdr)
		c.Start()
		sw.Pump(rec)
		if c.Completed() {
			c.C.WriteMsg([]byte("hello"))
			sw.Pump(rec)
			if s, ok := c.C.VerifSession(); ok {
				l.sidE = s.ID
			}
		}
		_ = ssrv
		sw.Close()
	}
	switch g.Target {
	case "server-closed":
		l.hE.Close()
	case "server-midhs", "client-hs2":
		// X: handshake advanced until the server auth is in flight (server holds handshake state)
		l.X = newClient(4001)
		l.X.Start()
		stopT := byte(4)
		if hidden {
			stopT = 9
		}
		if _, err := l.w.PumpUntil(nil, func(d *simnet.Datagram) bool { return d.Data[0] == stopT }); err != nil {
			return nil, err
		}
		if d := l.w.Net.Pop(); d != nil {
			// the half-open session's id is public: it travels in clear in this message
			if len(d.Data) >= 8 && !hidden {
				l.cap["__half-open-session-id"] = append([]byte{}, d.Data[4:8]...)
			}
			if g.Target != "client-hs2" { // (for client-hs2 the genuine message is replaced by junk)
				l.w.Net.PushFront(d)
			}
		}
	case "client-hs1":
		l.X = newClient(4001)
		l.X.Start()
		stopT := byte(2)
		if hidden {
			stopT = 9
		}
		if _, err := l.w.PumpUntil(nil, func(d *simnet.Datagram) bool { return d.Data[0] == stopT }); err != nil {
			return nil, err
		}
		l.w.Net.Pop()
	}
	return l, nil
}

// driven runs an otherwise honest client that carries the stimulus inside validly MACed
// handshake messages.
func (l *live) driven(st *setupT, j junk) error {
	hidden := cfgs[l.g.Cfg].Hidden
	cfg := st.std.ClientConfig(hidden)
	switch j.Base {
	case "sni":
		cfg.Verify.Name = sniNames[j.A]
	case "clientcert":
		transport.VerifClientCerts = certMods[j.A].f
		defer func() { transport.VerifClientCerts = nil }()
	}
	l.applied = append(l.applied, j)
	l.count++
	c := l.w.NewClient(cfg, simnet.Addr("10.0.0.8", 6000+l.count%1000), st.std.ServerAdr)
	c.Start()
	err := l.w.Pump(nil)
	if p := c.Panicked(); p != nil {
		l.clientPanics = append(l.clientPanics, fmt.Sprintf("%s: %v", j, p))
	}
	return err
}

func (l *live) deliver(j junk) error {
	if j.Base == "sni" || j.Base == "clientcert" {
		return l.driven(l.st, j)
	}
	b := j.build(l.cap, l.sidE, l.sO)
	if b == nil {
		return nil
	}
	l.applied = append(l.applied, j)
	l.count++
	var src, dst *net.UDPAddr
	switch {
	case strings.HasPrefix(l.g.Target, "server"):
		dst = l.srv.Addr
		src = simnet.Addr("10.0.0.2", 4000)
		if l.g.Target == "server-midhs" {
			src = l.X.Addr
		}
	case l.g.Target == "client-est":
		dst, src = l.E.Addr, l.srv.Addr
	default:
		dst, src = l.X.Addr, l.srv.Addr
	}
	if l.g.Third {
		src = third
	}
	l.w.Net.Deliver(b, src, dst)
	return l.w.Net.WaitQuiescent()
}

// verify is the oracle: everything that was working still works.
func (l *live) verify(st *setupT) []string {
	var ps []string
	hidden := cfgs[l.g.Cfg].Hidden
	// drop whatever the endpoints emitted in response to junk (the adversary owns the wire)
	for d := l.w.Net.Pop(); d != nil; d = l.w.Net.Pop() {
	}
	if l.E != nil && l.g.Target != "server-closed" {
		found := false
		for _, s := range l.srv.S.VerifSessions() {
			if s.ID == l.sidE && s.Established && !s.Closed {
				found = true
			}
		}
		if !found {
			ps = append(ps, "the established session disappeared from the server (or was closed) after unauthenticated datagrams")
		} else {
			m := []byte("probe-after-junk")
			if err := l.E.C.WriteMsg(m); err != nil {
				ps = append(ps, "write on the established client failed after junk: "+err.Error())
			} else {
				l.w.Pump(nil)
				buf := make([]byte, 64)
				ok := false
				for l.hE.VerifRecvLen() > 0 {
					n, err := l.hE.ReadMsg(buf)
					if err == nil && bytes.Equal(buf[:n], m) {
						ok = true
					}
				}
				if !ok {
					ps = append(ps, "a probe message no longer crosses the established session (client->server) after junk")
				}
				if err := l.hE.WriteMsg(m); err != nil {
					ps = append(ps, "write on the server handle failed after junk: "+err.Error())
				} else {
					l.w.Pump(nil)
					ok = false
					for l.E.C.VerifHandle().VerifRecvLen() > 0 {
						n, err := l.E.C.ReadMsg(buf)
						if err == nil && bytes.Equal(buf[:n], m) {
							ok = true
						}
					}
					if !ok {
						ps = append(ps, "a probe message no longer crosses the established session (server->client) after junk")
					}
				}
			}
		}
	}
	if l.X != nil && (l.g.Target == "client-hs1" || l.g.Target == "client-hs2") {
		if p := l.X.Panicked(); p != nil {
			ps = append(ps, fmt.Sprintf("client handshake panicked on junk: %v", p))
		}
	}
	for _, p := range l.clientPanics {
		ps = append(ps, "the driving client panicked: "+p)
	}
	// a fresh honest handshake still completes
	for d := l.w.Net.Pop(); d != nil; d = l.w.Net.Pop() {
	}
	f := l.w.NewClient(st.std.ClientConfig(hidden), simnet.Addr("10.0.0.7", 5000+l.count%1000), st.std.ServerAdr)
	f.Start()
	if err := l.w.Pump(nil); err != nil {
		ps = append(ps, "engine: "+err.Error())
	}
	if !f.Completed() {
		_, e := f.Result()
		ps = append(ps, fmt.Sprintf("a fresh honest handshake no longer completes after junk (client error: %v)", e))
	} else {
		var h *transport.Handle
		fs, _ := f.C.VerifSession()
		for c := l.srv.Accept(); c != nil; c = l.srv.Accept() {
			if c.VerifSession().ID == fs.ID {
				h = c
			}
		}
		if h == nil {
			ps = append(ps, "the server does not offer the fresh connection after junk")
		} else {
			f.C.WriteMsg([]byte("fresh"))
			l.w.Pump(nil)
			buf := make([]byte, 16)
			if h.VerifRecvLen() == 0 {
				ps = append(ps, "data does not cross the fresh connection after junk")
			} else {
				h.ReadMsg(buf)
			}
		}
	}
	return ps
}

func main() {
	r := vk.New("C10", "fault_enumeration")
	st := newSetup()
	thorough := r.Thorough()
	// message lengths are deterministic for a configuration: learn them once
	lens := map[string]int{}
	for _, hidden := range []int{0, 2} {
		l, err := build(st, group{Cfg: hidden, Target: "server-est"})
		if err != nil {
			r.EngineError("cannot build baseline world: %v", err)
			r.Finish()
		}
		for k, v := range l.cap {
			lens[k] = len(v)
		}
		l.w.Close()
	}
	discBases := []string{"CH", "CAck", "CAuth", "Data", "SH", "SAuth", "DataS2C"}
	hidBases := []string{"CReqH", "Data", "SRespH", "DataS2C"}
	var cases []caseT
	for ci := range cfgs {
		bases := discBases
		targets := []string{"server-idle", "server-midhs", "server-est", "server-closed", "client-hs1", "client-hs2", "client-est"}
		if cfgs[ci].Hidden {
			bases = hidBases
			targets = []string{"server-idle", "server-est", "server-closed", "client-hs1", "client-est"}
		}
		alpha := alphabet(thorough, bases, lens)
		for _, t := range targets {
			for _, thirdAddr := range []bool{false, true} {
				if thirdAddr && !(t == "server-est" || t == "server-midhs") {
					continue
				}
				if !thorough && ci%2 == 1 && (t == "client-hs1" || t == "client-hs2" || t == "client-est") {
					continue // client behaviour does not depend on the number of server certificates
				}
				for _, j := range alpha {
					cases = append(cases, caseT{G: group{ci, t, thirdAddr}, J: []junk{j}})
				}
				if t == "server-est" && !thirdAddr {
					if !cfgs[ci].Hidden {
						for k := range sniNames {
							cases = append(cases, caseT{G: group{ci, t, false}, J: []junk{{Base: "sni", Op: "name", A: k}}})
						}
					}
					if hasSeam("client-certs") {
						for k := range certMods {
							cases = append(cases, caseT{G: group{ci, t, false}, J: []junk{{Base: "clientcert", Op: certMods[k].name, A: k}}})
						}
					}
				}
			}
		}
	}
	if r.ReplayFile != "" {
		var c caseT
		if err := r.LoadReplay(&c); err != nil {
			r.EngineError("replay: %v", err)
			r.Finish()
		}
		rep := 1
		fmt.Sscan(os.Getenv("VERIF_REPEAT"), &rep)
		for k := 0; k < rep; k++ {
			l, err := build(st, c.G)
			if err != nil {
				r.EngineError("%v", err)
				r.Finish()
			}
			for _, j := range c.J {
				l.deliver(j)
			}
			for _, p := range l.verify(st) {
				r.Violation("replayed", p, c)
				fmt.Println("iteration", k, p)
			}
			l.w.Close()
		}
		r.Finish()
	}
	r.SetRule(fmt.Sprintf("junk datagrams derived from this world's own captured valid datagrams (bases %v / hidden %v): truncations (quick: first 60, last 50, every 64th and around fixed-size field ends; thorough: every length), header byte and 16-bit length-field mutations, session id {live, other live, unknown}, counters {0,1,2,2^63-1,2^63,2^64-1}, all 256 type bytes on four bases, valid public header + zero bodies of length 0..44 for 7 type values, transport/control messages correctly sealed under an all-zero and an all-0xff key for the live, another live and the half-open session id (payloads 0/1/5 bytes), raw datagrams of 17 lengths x 2 fills x 10 leading bytes; plus, carried inside validly MACed messages of an otherwise honest client: 14 unusual server names (unknown id types, empty, 252 bytes, glob metacharacters, non-matching, IP types) and 27 altered client certificate byte strings (cuts at every field boundary, trailing byte, zeros, chunk length 0/ffff, swapped leaf/intermediate) through the client-certs seam; delivered to the server in states {idle, mid-handshake, established, established+closed handle} from the peer's and a third address, and to clients {awaiting first reply, awaiting server auth, established}; 4 server configurations (1 certificate, 2 virtual hosts through hopserver.NewVirtualHosts/Match/glob, hidden with 1 and 2 certificates). Junk of one group is delivered in batches of 16 to one world (so each datagram also meets a server that has already seen junk), in crash-isolating worker processes with a per-datagram journal. Oracle after each batch: process alive, established session present + probe both ways, fresh honest handshake completes and carries data; a failing batch is re-run datagram by datagram. distinct_nontrivial = distinct (group, junk) cases executed.", discBases, hidBases))
	const B = 16
	var cur *live
	iTo := 0
	fmt.Sscan(os.Getenv("VERIF_ISO_DUMMY"), &iTo)
	describe := func(i int) (string, any) {
		c := cases[i]
		return fmt.Sprintf("%s:%s.%s", c.G, c.J[0].Base, c.J[0].Op), c
	}
	runOne := func(c caseT) []string {
		l, err := build(st, c.G)
		if err != nil {
			return []string{"engine: " + err.Error()}
		}
		defer l.w.Close()
		for _, j := range c.J {
			if err := l.deliver(j); err != nil {
				return []string{"engine: " + err.Error()}
			}
		}
		return l.verify(st)
	}
	r.Isolated("junk", len(cases), describe, func(i int) vk.IsoResult {
		c := cases[i]
		res := vk.IsoResult{Distinct: fmt.Sprintf("%s|%s", c.G, c.J[0])}
		clientHS := c.G.Target == "client-hs1" || c.G.Target == "client-hs2"
		if clientHS {
			// a client reads exactly one datagram per handshake step: one world per case
			for _, p := range runOne(c) {
				k, _ := describe(i)
				res.Problems = append(res.Problems, vk.Violation{Key: k, What: p, Case: c})
			}
			return res
		}
		if cur == nil || cur.g != c.G {
			if cur != nil {
				cur.w.Close()
			}
			var err error
			cur, err = build(st, c.G)
			if err != nil {
				res.Problems = append(res.Problems, vk.Violation{Key: "engine:" + c.G.String(), What: "engine: cannot build world: " + err.Error()})
				cur = nil
				return res
			}
		}
		if err := cur.deliver(c.J[0]); err != nil {
			k, _ := describe(i)
			res.Problems = append(res.Problems, vk.Violation{Key: k, What: "endpoint did not come to rest after this datagram (wedged): " + err.Error(), Case: c})
			cur.w.Close()
			cur = nil
			return res
		}
		last := i+1 >= len(cases) || cases[i+1].G != c.G || len(cur.applied) >= B
		if !last {
			return res
		}
		batch := cur.applied
		ps := cur.verify(st)
		cur.w.Close()
		cur = nil
		if len(ps) > 0 {
			// pinpoint: each datagram of the batch alone on a fresh world
			pin := false
			for _, j := range batch {
				single := caseT{G: c.G, J: []junk{j}}
				for _, p := range runOne(single) {
					pin = true
					res.Problems = append(res.Problems, vk.Violation{Key: fmt.Sprintf("%s:%s.%s", c.G, j.Base, j.Op), What: p + " [single datagram " + j.String() + "]", Case: single})
				}
			}
			if !pin {
				for _, p := range ps {
					res.Problems = append(res.Problems, vk.Violation{Key: fmt.Sprintf("%s:batch", c.G), What: p + " [only as a sequence]", Case: caseT{G: c.G, J: batch}})
				}
			}
		}
		if i%499 == 0 {
			res.Sample = map[string]any{"group": c.G.String(), "junk": c.J[0].String()}
		}
		return res
	})
	r.Set("cases", len(cases))
	r.Set("batch", B)
	r.Set("real_hopserver_wiring", hasSeam("hopserver-listen"))
	r.Set("client_certs_seam", hasSeam("client-certs"))
	if !hasSeam("client-certs") {
		r.Cap("client-certs seam did not apply: altered client certificate bytes not exercised")
	}
	r.Assume("the adversary does not hold session keys; junk is generated from the stated structured alphabet, not from all 2^(8*65535) byte strings")
	r.Finish()
}
