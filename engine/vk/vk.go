// Package vk is the plumbing shared by every check: flags, evidence, violations, known
// findings, replay files, exit codes. It is mapped into the hop module by the driver's overlay
// as hop.computer/hop/zzverif/vk.
package vk

import (
	"bufio"
	"encoding/json"
	"flag"
	"fmt"
	"github.com/sirupsen/logrus"
	"io"
	"os"
	"os/exec"
	"path/filepath"
	"regexp"
	"runtime"
	"sort"
	"strings"
	"sync"
	"sync/atomic"
	"time"
)

// Violation is one failing case.
type Violation struct {
	Key  string `json:"key"`  // stable identity of the failing input / call site / history
	What string `json:"what"` // human explanation
	Case any    `json:"case"` // replayable description (op list, choice list, input)
}

type finding struct {
	Status   string `json:"status"`
	Property string `json:"property"`
	Key      string `json:"key"`
	// KeyGlob (only honoured for status "finding") identifies a family of failing histories
	// that differ in timing parameters only: '*' matches any run of characters.
	KeyGlob string `json:"key_glob,omitempty"`
	What    string `json:"what"`
	Commit  string `json:"commit,omitempty"`
}

// globMatch: '*' matches any (possibly empty) run of characters; everything else is literal.
func globMatch(pat, s string) bool {
	parts := strings.Split(pat, "*")
	if len(parts) == 1 {
		return pat == s
	}
	if !strings.HasPrefix(s, parts[0]) {
		return false
	}
	s = s[len(parts[0]):]
	for _, p := range parts[1 : len(parts)-1] {
		i := strings.Index(s, p)
		if i < 0 {
			return false
		}
		s = s[i+len(p):]
	}
	return strings.HasSuffix(s, parts[len(parts)-1])
}

// Run collects what a check did.
type Run struct {
	ID    string
	Level string
	Tier  string
	Seed  int64

	EvidencePath string
	ReplayDir    string
	KnownPath    string
	ReplayFile   string
	Workers      int
	Deadline     time.Time // soft budget; checks consult Expired()

	start       time.Time
	evals       atomic.Int64
	mu          sync.Mutex
	distinct    map[string]struct{}
	samples     []any
	maxSamples  int
	extra       map[string]any
	assumptions []string
	rule        string
	childRules  []string
	exhaustive  bool
	capsHit     []string
	viols       map[string]Violation
	violCount   int
	states      int64
	transitions int64
	traces      int64
	engineErr   []string
	distinctAdd int // distinct cases reported by child processes
}

type childResult struct {
	Evals       int64          `json:"evals"`
	Distinct    int            `json:"distinct"`
	States      int64          `json:"states"`
	Transitions int64          `json:"transitions"`
	Traces      int64          `json:"traces"`
	Exhaustive  bool           `json:"exhaustive"`
	Caps        []string       `json:"caps"`
	EngineErr   []string       `json:"engine_errors"`
	Violations  []Violation    `json:"violations"`
	Extra       map[string]any `json:"extra"`
	Samples     []any          `json:"samples"`
	Rule        string         `json:"rule"`
}

// RunChild runs another harness binary (e.g. the same harness built with other tags) as a
// child with the same tier and merges what it did into this run. Keys of its violations are
// prefixed with label.
func (r *Run) RunChild(label, bin string, args ...string) {
	out := filepath.Join(os.Getenv("VERIF_TMP"), fmt.Sprintf("child-%s-%d.json", label, time.Now().UnixNano()))
	a := append([]string{"-tier", r.Tier, "-child-out", out, "-workers", fmt.Sprint(r.Workers)}, args...)
	if !r.Deadline.IsZero() {
		// the child shares the parent's soft budget (it always gets a few minutes of its own)
		left := time.Until(r.Deadline)
		if left < 5*time.Minute {
			left = 5 * time.Minute
		}
		a = append(a, "-budget", left.Round(time.Second).String())
	}
	cmd := exec.Command(bin, a...)
	cmd.Stderr = os.Stderr
	cmd.Stdout = os.Stderr
	if err := cmd.Run(); err != nil {
		r.EngineError("child %s failed: %v", label, err)
		return
	}
	b, err := os.ReadFile(out)
	if err != nil {
		r.EngineError("child %s wrote no result: %v", label, err)
		return
	}
	os.Remove(out)
	var cr childResult
	if err := json.Unmarshal(b, &cr); err != nil {
		r.EngineError("child %s result unreadable: %v", label, err)
		return
	}
	r.evals.Add(cr.Evals)
	r.mu.Lock()
	r.distinctAdd += cr.Distinct
	r.states += cr.States
	r.transitions += cr.Transitions
	r.traces += cr.Traces
	if !cr.Exhaustive {
		r.exhaustive = false
	}
	for _, c := range cr.Caps {
		r.capsHit = append(r.capsHit, label+": "+c)
	}
	for _, e := range cr.EngineErr {
		r.engineErr = append(r.engineErr, label+": "+e)
	}
	r.extra["child_"+label] = map[string]any{"evaluations": cr.Evals, "distinct": cr.Distinct, "extra": cr.Extra, "rule": cr.Rule}
	if cr.Rule != "" {
		r.childRules = append(r.childRules, "["+label+" build] "+cr.Rule)
	}
	for _, s := range cr.Samples {
		if len(r.samples) < r.maxSamples+4 {
			r.samples = append(r.samples, map[string]any{"build": label, "case": s})
		}
	}
	r.mu.Unlock()
	for _, v := range cr.Violations {
		r.Violation(label+":"+v.Key, "["+label+" build] "+v.What, v.Case)
	}
}

var (
	fTier     = flag.String("tier", "quick", "quick|thorough")
	fEvidence = flag.String("evidence", "", "evidence output path")
	fReplays  = flag.String("replays", "", "directory for replay artefacts")
	fKnown    = flag.String("known", "", "known findings jsonl")
	fReplay   = flag.String("replay", "", "replay one recorded case instead of exploring")
	fWorkers  = flag.Int("workers", 0, "parallel workers (default: NumCPU)")
	fChildOut = flag.String("child-out", "", "internal: run as a child of another harness and write a result summary here")
	fBudget   = flag.Duration("budget", 0, "soft wall-clock budget; when exceeded exploration stops with exhaustive=false")
)

// New parses flags and returns a Run. level is the EVIDENCE level enum.
func New(id, level string) *Run {
	if !flag.Parsed() {
		flag.Parse()
	}
	if os.Getenv("VERIF_LOG") == "" {
		logrus.SetOutput(io.Discard)
		logrus.SetLevel(logrus.PanicLevel)
	}
	r := &Run{ID: id, Level: level, Tier: *fTier, EvidencePath: *fEvidence, ReplayDir: *fReplays,
		KnownPath: *fKnown, ReplayFile: *fReplay, Workers: *fWorkers, start: time.Now(),
		distinct: map[string]struct{}{}, extra: map[string]any{}, viols: map[string]Violation{},
		maxSamples: 6, exhaustive: true, assumptions: []string{}}
	if t := os.Getenv("VERIF_TIER"); t != "" && *fTier == "" {
		r.Tier = t
	}
	if r.Tier != "quick" && r.Tier != "thorough" {
		fmt.Fprintf(os.Stderr, "bad tier %q\n", r.Tier)
		os.Exit(2)
	}
	fmt.Sscan(os.Getenv("VERIF_SEED"), &r.Seed)
	if r.Workers <= 0 {
		r.Workers = runtime.NumCPU()
	}
	if *fBudget > 0 {
		r.Deadline = r.start.Add(*fBudget)
	}
	return r
}

func (r *Run) Quick() bool    { return r.Tier == "quick" }
func (r *Run) Thorough() bool { return r.Tier == "thorough" }

// Expired reports whether the soft wall-clock budget is over. A check that stops because of it
// must call Cap so the evidence says exhaustive=false.
func (r *Run) Expired() bool { return !r.Deadline.IsZero() && time.Now().After(r.Deadline) }

// Eval counts one evaluated case.
func (r *Run) Eval()            { r.evals.Add(1) }
func (r *Run) EvalN(n int64)    { r.evals.Add(n) }
func (r *Run) Evals() int64     { return r.evals.Load() }
func (r *Run) SetRule(s string) { r.rule = s }

// Distinct records the canonical identity of a non-trivial case.
func (r *Run) Distinct(key string) {
	r.mu.Lock()
	r.distinct[key] = struct{}{}
	r.mu.Unlock()
}

// Sample keeps a few actual cases for the evidence file.
func (r *Run) Sample(s any) {
	r.mu.Lock()
	if len(r.samples) < r.maxSamples {
		r.samples = append(r.samples, s)
	}
	r.mu.Unlock()
}

// SampleForce appends a sample regardless of the cap (used for per-phase summaries).
func (r *Run) SampleForce(s any) {
	r.mu.Lock()
	r.samples = append(r.samples, s)
	r.mu.Unlock()
}

func (r *Run) Set(k string, v any) {
	r.mu.Lock()
	r.extra[k] = v
	r.mu.Unlock()
}

// AddInt adds to an integer extra key.
func (r *Run) AddInt(k string, n int64) {
	r.mu.Lock()
	cur, _ := r.extra[k].(int64)
	r.extra[k] = cur + n
	r.mu.Unlock()
}

func (r *Run) Assume(s string) { r.assumptions = append(r.assumptions, s) }

// Cap records that a bound/cap was hit so the run is not exhaustive.
func (r *Run) Cap(what string) {
	r.mu.Lock()
	r.exhaustive = false
	r.capsHit = append(r.capsHit, what)
	r.mu.Unlock()
}

// Graph adds explicit-state statistics.
func (r *Run) Graph(states, transitions, tracesValidated int64) {
	r.mu.Lock()
	r.states += states
	r.transitions += transitions
	r.traces += tracesValidated
	r.mu.Unlock()
}

// EngineError records a failure of the machinery itself (exit 2, never a VIOLATION).
func (r *Run) EngineError(format string, a ...any) {
	r.mu.Lock()
	r.engineErr = append(r.engineErr, fmt.Sprintf(format, a...))
	r.mu.Unlock()
}

// Violation records a failing case (deduplicated on key).
func (r *Run) Violation(key, what string, c any) {
	r.mu.Lock()
	defer r.mu.Unlock()
	r.violCount++
	if _, ok := r.viols[key]; ok {
		return
	}
	if len(r.viols) >= 400 {
		return
	}
	r.viols[key] = Violation{Key: key, What: what, Case: c}
}

func (r *Run) NumViolations() int {
	r.mu.Lock()
	defer r.mu.Unlock()
	return len(r.viols)
}

func (r *Run) loadKnown() []finding {
	var out []finding
	if r.KnownPath == "" {
		return out
	}
	f, err := os.Open(r.KnownPath)
	if err != nil {
		return out
	}
	defer f.Close()
	sc := bufio.NewScanner(f)
	sc.Buffer(make([]byte, 1<<20), 1<<20)
	for sc.Scan() {
		line := strings.TrimSpace(sc.Text())
		if line == "" || strings.HasPrefix(line, "#") {
			continue
		}
		var fd finding
		if json.Unmarshal([]byte(line), &fd) == nil && fd.Property == r.ID && fd.Status == "finding" {
			out = append(out, fd)
		}
	}
	return out
}

var unsafeChars = regexp.MustCompile(`[^A-Za-z0-9_.=+-]+`)

func fileKey(k string) string {
	s := unsafeChars.ReplaceAllString(k, "_")
	if len(s) > 120 {
		s = s[:120]
	}
	return s
}

// Finish writes the evidence file, prints verdict lines and exits.
func (r *Run) Finish() {
	if *fChildOut != "" {
		cr := childResult{Evals: r.evals.Load(), Distinct: len(r.distinct), States: r.states, Transitions: r.transitions,
			Traces: r.traces, Exhaustive: r.exhaustive, Caps: r.capsHit, EngineErr: r.engineErr, Extra: r.extra, Samples: r.samples, Rule: r.rule}
		for _, v := range r.viols {
			cr.Violations = append(cr.Violations, v)
		}
		b, _ := json.Marshal(cr)
		if err := os.WriteFile(*fChildOut, b, 0o644); err != nil {
			os.Exit(2)
		}
		os.Exit(0)
	}
	known := r.loadKnown()
	keys := make([]string, 0, len(r.viols))
	for k := range r.viols {
		keys = append(keys, k)
	}
	sort.Strings(keys)
	var unknown, matched []Violation
	for _, k := range keys {
		v := r.viols[k]
		isKnown := false
		for _, f := range known {
			if f.Key == v.Key || (f.KeyGlob != "" && globMatch(f.KeyGlob, v.Key)) {
				isKnown = true
			}
		}
		if isKnown {
			matched = append(matched, v)
		} else {
			unknown = append(unknown, v)
		}
	}
	wall := time.Since(r.start).Seconds()
	cov := map[string]any{}
	for k, v := range r.extra {
		cov[k] = v
	}
	cov["evaluations"] = r.evals.Load()
	cov["distinct_nontrivial"] = len(r.distinct) + r.distinctAdd
	cov["rule"] = r.rule
	for _, cr := range r.childRules {
		cov["rule"] = cov["rule"].(string) + " || " + cr
	}
	if len(r.samples) == 0 {
		// fall back to a few of the distinct case identities recorded during the run
		r.samples = []any{}
		ks := make([]string, 0, 8)
		for k := range r.distinct {
			ks = append(ks, k)
			if len(ks) == 8 {
				break
			}
		}
		sort.Strings(ks)
		for _, k := range ks {
			if len(k) > 300 {
				k = k[:300]
			}
			r.samples = append(r.samples, k)
		}
	}
	cov["samples"] = r.samples
	cov["exhaustive"] = r.exhaustive && len(r.engineErr) == 0
	if len(r.capsHit) > 0 {
		cov["caps_hit"] = r.capsHit
	}
	if r.states > 0 {
		cov["states"] = r.states
		cov["transitions"] = r.transitions
		cov["traces_validated_against_impl"] = r.traces
	}
	if len(r.engineErr) > 0 {
		cov["engine_errors"] = r.engineErr
	}
	if len(matched) > 0 {
		var ks []string
		for _, v := range matched {
			ks = append(ks, v.Key)
		}
		cov["known_findings_reproduced"] = ks
	}
	ev := map[string]any{
		"property_id": r.ID, "tier": r.Tier, "seed": r.Seed, "level": r.Level,
		"coverage": cov, "assumptions": r.assumptions, "wall_s": wall,
		"violations": len(unknown),
	}
	if r.EvidencePath != "" && r.ReplayFile == "" {
		os.MkdirAll(filepath.Dir(r.EvidencePath), 0o755)
		b, _ := json.MarshalIndent(ev, "", " ")
		if err := os.WriteFile(r.EvidencePath, append(b, '\n'), 0o644); err != nil {
			fmt.Fprintf(os.Stderr, "cannot write evidence: %v\n", err)
			os.Exit(2)
		}
	}
	fmt.Printf("SUMMARY property=%s tier=%s evaluations=%d distinct=%d states=%d transitions=%d exhaustive=%v violations=%d known=%d wall=%.1fs\n",
		r.ID, r.Tier, r.evals.Load(), len(r.distinct)+r.distinctAdd, r.states, r.transitions, cov["exhaustive"], len(unknown), len(matched), wall)
	for _, v := range matched {
		fmt.Printf("KNOWN-FINDING: property=%s %s :: %s\n", r.ID, v.Key, oneLine(v.What))
	}
	for _, e := range r.engineErr {
		fmt.Printf("ENGINE-ERROR property=%s %s\n", r.ID, oneLine(e))
	}
	if len(unknown) > 0 {
		for i, v := range unknown {
			path := ""
			if r.ReplayDir != "" {
				os.MkdirAll(r.ReplayDir, 0o755)
				path = filepath.Join(r.ReplayDir, fileKey(v.Key)+".json")
				b, _ := json.MarshalIndent(map[string]any{"property": r.ID, "key": v.Key, "what": v.What, "case": v.Case}, "", " ")
				os.WriteFile(path, append(b, '\n'), 0o644)
			}
			if i < 25 {
				fmt.Printf("VIOLATION property=%s replay=%s key=%s :: %s\n", r.ID, path, v.Key, oneLine(v.What))
			}
		}
		if len(unknown) > 25 {
			fmt.Printf("(%d further distinct violations written to %s)\n", len(unknown)-25, r.ReplayDir)
		}
		os.Exit(1)
	}
	if len(r.engineErr) > 0 {
		os.Exit(2)
	}
	os.Exit(0)
}

func oneLine(s string) string {
	s = strings.ReplaceAll(s, "\n", " | ")
	if len(s) > 400 {
		s = s[:400] + "…"
	}
	return s
}

// LoadReplay reads the "case" member of a replay file into v.
func (r *Run) LoadReplay(v any) error {
	b, err := os.ReadFile(r.ReplayFile)
	if err != nil {
		return err
	}
	var w struct {
		Case json.RawMessage `json:"case"`
	}
	if err := json.Unmarshal(b, &w); err != nil {
		return err
	}
	return json.Unmarshal(w.Case, v)
}

// Parallel runs fn(i) for i in [0,n) on r.Workers goroutines.
func (r *Run) Parallel(n int, fn func(i int)) {
	var next atomic.Int64
	var wg sync.WaitGroup
	w := r.Workers
	if w > n {
		w = n
	}
	for k := 0; k < w; k++ {
		wg.Add(1)
		go func() {
			defer wg.Done()
			for {
				i := int(next.Add(1) - 1)
				if i >= n {
					return
				}
				fn(i)
			}
		}()
	}
	wg.Wait()
}

// Try calls fn and converts a panic into a string ("" = no panic).
func Try(fn func()) (panicked string) {
	defer func() {
		if e := recover(); e != nil {
			buf := make([]byte, 2048)
			n := runtime.Stack(buf, false)
			panicked = fmt.Sprintf("panic: %v @ %s", e, firstRepoFrame(string(buf[:n])))
		}
	}()
	fn()
	return ""
}

func firstRepoFrame(st string) string {
	repo := os.Getenv("VERIF_REPO")
	if repo == "" {
		repo = "/repo"
	}
	lines := strings.Split(st, "\n")
	for _, l := range lines {
		l = strings.TrimSpace(l)
		if strings.HasPrefix(l, repo+"/") && !strings.Contains(l, "/zzverif/") {
			l = "/repo" + strings.TrimPrefix(l, repo)
			if i := strings.Index(l, " "); i > 0 {
				l = l[:i]
			}
			return l
		}
	}
	return "?"
}

// ---- crash-isolated exploration -------------------------------------------------------------
//
// Some properties are about panics in goroutines the harness does not own (a transport server's
// receive loop): those cannot be recovered and kill the process. Isolated runs the cases in
// worker subprocesses (the same binary re-executed) that journal "case k starts" before each
// case; when a worker dies the parent records case k as failed with the tail of the worker's
// stderr and restarts a worker at k+1.

var (
	fIsoWorker = flag.String("iso-worker", "", "internal: run as isolated worker for the named block")
	fIsoFrom   = flag.Int("iso-from", 0, "internal")
	fIsoTo     = flag.Int("iso-to", 0, "internal")
	fIsoOut    = flag.String("iso-out", "", "internal")
)

// IsoResult is what one case reports.
type IsoResult struct {
	Problems []Violation `json:"problems,omitempty"`
	Distinct string      `json:"distinct,omitempty"`
	Sample   any         `json:"sample,omitempty"`
}

type isoLine struct {
	I     int        `json:"i"`
	Start bool       `json:"start,omitempty"`
	Done  bool       `json:"done,omitempty"`
	Res   *IsoResult `json:"res,omitempty"`
}

// Isolated runs runCase(i) for i in [0,n) in crash-isolating worker processes. describe(i)
// gives the identity of case i for a crash report. In worker mode it never returns.
func (r *Run) Isolated(name string, n int, describe func(i int) (key string, c any), runCase func(i int) IsoResult) {
	if *fIsoWorker != "" {
		if *fIsoWorker != name {
			return // a different isolated block of the same harness
		}
		f, err := os.OpenFile(*fIsoOut, os.O_CREATE|os.O_WRONLY|os.O_APPEND, 0o644)
		if err != nil {
			os.Exit(3)
		}
		enc := json.NewEncoder(f)
		for i := *fIsoFrom; i < *fIsoTo && i < n; i++ {
			enc.Encode(isoLine{I: i, Start: true})
			res := runCase(i)
			enc.Encode(isoLine{I: i, Done: true, Res: &res})
		}
		f.Close()
		os.Exit(0)
	}
	shards := r.Workers
	if shards > n {
		shards = n
	}
	if shards == 0 {
		return
	}
	per := (n + shards - 1) / shards
	var wg sync.WaitGroup
	for s := 0; s < shards; s++ {
		from, to := s*per, (s+1)*per
		if to > n {
			to = n
		}
		if from >= to {
			continue
		}
		wg.Add(1)
		go func(s, from, to int) {
			defer wg.Done()
			for from < to {
				if r.Expired() {
					r.Cap(fmt.Sprintf("isolated block %s: budget expired at case %d of shard %d", name, from, s))
					return
				}
				out := filepath.Join(os.Getenv("VERIF_TMP"), fmt.Sprintf("iso-%s-%d-%d.jsonl", name, s, from))
				os.Remove(out)
				// the worker gets the parent's own arguments (tier, seams, …) followed by the overrides
				wargs := append(append([]string{}, os.Args[1:]...), "-tier", r.Tier, "-iso-worker", name, "-iso-from", fmt.Sprint(from), "-iso-to", fmt.Sprint(to), "-iso-out", out, "-workers", "1")
				cmd := exec.Command(os.Args[0], wargs...)
				var stderr strings.Builder
				cmd.Stderr = &tailWriter{b: &stderr, max: 6000}
				cmd.Stdout = nil
				runErr := cmd.Run()
				// read the journal
				last, lastDone := from-1, true
				if fh, err := os.Open(out); err == nil {
					sc := bufio.NewScanner(fh)
					sc.Buffer(make([]byte, 1<<20), 1<<26)
					for sc.Scan() {
						var l isoLine
						if json.Unmarshal(sc.Bytes(), &l) != nil {
							continue
						}
						if l.Start {
							last, lastDone = l.I, false
						}
						if l.Done {
							lastDone = true
							r.Eval()
							if l.Res != nil {
								for _, p := range l.Res.Problems {
									r.Violation(p.Key, p.What, p.Case)
								}
								if l.Res.Distinct != "" {
									r.Distinct(l.Res.Distinct)
								}
								if l.Res.Sample != nil {
									r.Sample(l.Res.Sample)
								}
							}
						}
					}
					fh.Close()
					os.Remove(out)
				}
				if runErr == nil && lastDone && last == to-1 {
					return
				}
				if !lastDone {
					// the worker died inside case `last`
					r.Eval()
					key, c := describe(last)
					r.Violation("crash:"+key, "the process died while executing this case: "+crashSummary(stderr.String()), c)
					from = last + 1
					continue
				}
				if runErr != nil {
					r.EngineError("isolated worker %s[%d,%d) failed outside a case: %v: %s", name, from, to, runErr, crashSummary(stderr.String()))
					return
				}
				from = last + 1
			}
		}(s, from, to)
	}
	wg.Wait()
}

type tailWriter struct {
	b   *strings.Builder
	max int
}

func (t *tailWriter) Write(p []byte) (int, error) {
	t.b.Write(p)
	if t.b.Len() > 4*t.max {
		s := t.b.String()
		t.b.Reset()
		t.b.WriteString(s[len(s)-t.max:])
	}
	return len(p), nil
}

// crashSummary extracts the panic line and the first repository frame from a Go crash dump.
func crashSummary(s string) string {
	lines := strings.Split(s, "\n")
	msg, frame := "", ""
	for i, l := range lines {
		if msg == "" && (strings.HasPrefix(l, "panic:") || strings.HasPrefix(l, "fatal error:")) {
			msg = strings.TrimSpace(l)
			for _, m := range lines[i:] {
				m = strings.TrimSpace(m)
				if strings.HasPrefix(m, "/repo/") || (strings.Contains(m, "/") && strings.Contains(m, ".go:") && !strings.Contains(m, "/zzverif/") && !strings.Contains(m, "/src/runtime/") && !strings.Contains(m, "logrus")) {
					if j := strings.Index(m, " "); j > 0 {
						m = m[:j]
					}
					frame = m
					break
				}
			}
		}
	}
	if msg == "" {
		if len(s) > 300 {
			s = s[len(s)-300:]
		}
		return "no panic message captured; stderr tail: " + s
	}
	return msg + " @ " + frame
}
