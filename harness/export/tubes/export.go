//go:build verif

package tubes

// White-box access to the frame codecs.

type VerifFrame struct {
	AckNo, FrameNo uint32
	DataLength     uint16
	Flags          byte
	TubeID         byte
	Data           []byte
}

func VerifFrameEncode(f VerifFrame) []byte {
	p := &frame{ackNo: f.AckNo, frameNo: f.FrameNo, dataLength: f.DataLength, flags: metaToFlags(f.Flags), tubeID: f.TubeID, data: f.Data}
	return p.toBytes()
}

func VerifFrameDecode(b []byte) (VerifFrame, error) {
	p, err := fromBytes(b)
	if err != nil {
		return VerifFrame{}, err
	}
	return VerifFrame{AckNo: p.ackNo, FrameNo: p.frameNo, DataLength: p.dataLength, Flags: flagsToMetaByte(&p.flags), TubeID: p.tubeID, Data: p.data}, nil
}

type VerifInitFrame struct {
	FrameNo    uint32
	TubeID     byte
	TubeType   byte
	DataLength uint16
	Flags      byte
	Data       []byte
}

func VerifInitEncode(f VerifInitFrame) []byte {
	p := &initiateFrame{frameNo: f.FrameNo, tubeID: f.TubeID, tubeType: TubeType(f.TubeType), dataLength: f.DataLength, flags: metaToFlags(f.Flags), data: f.Data}
	return p.toBytes()
}

func VerifInitDecode(b []byte) VerifInitFrame {
	p := fromInitiateBytes(b)
	return VerifInitFrame{FrameNo: p.frameNo, TubeID: p.tubeID, TubeType: byte(p.tubeType), DataLength: p.dataLength, Flags: flagsToMetaByte(&p.flags), Data: p.data}
}
