// Package refkravatte is Kravatte-Achouffe (Farfalle with Keccak-p[1600,6] everywhere) and
// Deck-SANSE on top of it, written from the Farfalle paper (ToSC 2017/4, §7 and the SANSE
// algorithm) on byte arrays. F evaluates the whole history from scratch on every call — no
// queue, no incremental state — which is what makes it independent of the implementation's
// streaming logic.
package refkravatte

import (
	"encoding/binary"

	"hop.computer/hop/zzverif/refkeccak"
)

// Bits is a bit string, LSB-first inside bytes.
type Bits struct {
	B []byte
	N int // number of bits
}

func FromBytes(b []byte) Bits { return Bits{append([]byte{}, b...), 8 * len(b)} }

func (s Bits) bit(i int) byte { return (s.B[i/8] >> (i % 8)) & 1 }

// Append returns s followed by the given bits.
func (s Bits) Append(bits ...byte) Bits {
	out := Bits{make([]byte, (s.N+len(bits)+7)/8), s.N + len(bits)}
	for i := 0; i < s.N; i++ {
		out.B[i/8] |= s.bit(i) << (i % 8)
	}
	for j, b := range bits {
		i := s.N + j
		out.B[i/8] |= (b & 1) << (i % 8)
	}
	return out
}

type state = [200]byte

func lane(s *state, i int) uint64       { return binary.LittleEndian.Uint64(s[8*i:]) }
func setLane(s *state, i int, v uint64) { binary.LittleEndian.PutUint64(s[8*i:], v) }
func rol(v uint64, n uint) uint64       { return v<<n | v>>(64-n) }

// rollC acts on lanes 20..24 (plane y=4).
func rollC(s *state) {
	x0, x1, x2, x3, x4 := lane(s, 20), lane(s, 21), lane(s, 22), lane(s, 23), lane(s, 24)
	setLane(s, 20, x1)
	setLane(s, 21, x2)
	setLane(s, 22, x3)
	setLane(s, 23, x4)
	setLane(s, 24, rol(x0, 7)^x1^(x1>>3))
}

// rollE acts on lanes 15..24 (planes y=3,4).
func rollE(s *state) {
	var x [10]uint64
	for i := range x {
		x[i] = lane(s, 15+i)
	}
	for i := 0; i < 9; i++ {
		setLane(s, 15+i, x[i+1])
	}
	setLane(s, 24, rol(x[0], 7)^rol(x[1], 18)^(x[2]&(x[1]>>1)))
}

func xor(dst *state, a *state) {
	for i := range dst {
		dst[i] ^= a[i]
	}
}

// pad10 pads a bit string to a whole number (>=1) of 200-byte blocks: a single 1 bit then zeros.
func pad10(s Bits) []byte {
	n := (s.N + 1 + 1599) / 1600 * 200
	out := make([]byte, n)
	for i := 0; i < s.N; i++ {
		out[i/8] |= s.bit(i) << (i % 8)
	}
	out[s.N/8] |= 1 << (s.N % 8)
	return out
}

// MaskKey derives k = p_b(K || 1 || 0*), |K| <= 199 bytes.
func MaskKey(key []byte) state {
	var k state
	copy(k[:], pad10(FromBytes(key)))
	refkeccak.P(&k, 6)
	return k
}

// F computes nOut bytes of F_K(history) where history lists the strings oldest first.
func F(key []byte, history []Bits, nOut int) []byte {
	k := MaskKey(key)
	kr := k
	var x state
	for _, s := range history {
		p := pad10(s)
		for off := 0; off < len(p); off += 200 {
			var blk state
			copy(blk[:], p[off:off+200])
			xor(&blk, &kr)
			refkeccak.P(&blk, 6)
			xor(&x, &blk)
			rollC(&kr)
		}
		rollC(&kr)
	}
	y := x
	refkeccak.P(&y, 6)
	var out []byte
	for len(out) < nOut {
		z := y
		refkeccak.P(&z, 6)
		xor(&z, &kr)
		out = append(out, z[:]...)
		rollE(&y)
	}
	return out[:nOut]
}

// Sanse is a Deck-SANSE session (t = 256 bits).
type Sanse struct {
	Key     []byte
	History []Bits
	E       byte
}

func NewSanse(key []byte) *Sanse { return &Sanse{Key: append([]byte{}, key...)} }

// Wrap returns ciphertext || tag.
func (s *Sanse) Wrap(a, p []byte) []byte {
	if len(a) > 0 || len(p) == 0 {
		s.History = append(s.History, FromBytes(a).Append(0, s.E))
	}
	var c, t []byte
	if len(p) > 0 {
		ps := FromBytes(p).Append(0, 1, s.E)
		t = F(s.Key, append(append([]Bits{}, s.History...), ps), 32)
		ks := F(s.Key, append(append([]Bits{}, s.History...), FromBytes(t).Append(1, 1, s.E)), len(p))
		c = make([]byte, len(p))
		for i := range p {
			c[i] = p[i] ^ ks[i]
		}
		s.History = append(s.History, ps)
	} else {
		t = F(s.Key, s.History, 32)
	}
	s.E ^= 1
	return append(c, t...)
}

// Unwrap returns the plaintext and whether the tag verified. The session advances either way
// (as the specification's unwrap does before comparing).
func (s *Sanse) Unwrap(a, ct []byte) ([]byte, bool) {
	if len(ct) < 32 {
		return nil, false
	}
	c, t := ct[:len(ct)-32], ct[len(ct)-32:]
	if len(a) > 0 || len(c) == 0 {
		s.History = append(s.History, FromBytes(a).Append(0, s.E))
	}
	var p []byte
	if len(c) > 0 {
		ks := F(s.Key, append(append([]Bits{}, s.History...), FromBytes(t).Append(1, 1, s.E)), len(c))
		p = make([]byte, len(c))
		for i := range c {
			p[i] = c[i] ^ ks[i]
		}
		s.History = append(s.History, FromBytes(p).Append(0, 1, s.E))
	}
	t2 := F(s.Key, s.History, 32)
	s.E ^= 1
	ok := true
	for i := range t {
		if t[i] != t2[i] {
			ok = false
		}
	}
	if !ok {
		return nil, false
	}
	return p, true
}
