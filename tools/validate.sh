#!/bin/sh
# validates MANIFEST.json and every evidence file against the schemas
cd /verif && python3-vt - <<'PY'
import json,jsonschema,glob,sys
jsonschema.validate(json.load(open('MANIFEST.json')),json.load(open('/root/.vp/MANIFEST.schema.json')))
es=json.load(open('/root/.vp/EVIDENCE.schema.json'))
m=json.load(open('MANIFEST.json'))
bad=0
for c in m['checks']:
    try:
        e=json.load(open(c['evidence_file']))
        jsonschema.validate(e,es)
        assert e['level']==c['level_claimed']['category'], 'level mismatch'
        print(c['property_id'],e['tier'],e['level'],'ok', 'wall=%.1f'%e['wall_s'], 'ex=',e['coverage'].get('exhaustive'))
    except Exception as ex:
        bad=1; print(c['property_id'],'INVALID',str(ex)[:300])
sys.exit(bad)
PY
