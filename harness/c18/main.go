// C18 — wire encodings round-trip; re-encoding preserves what was parsed.
// For every codec: (A) a value grid (field lengths 0,1,255,256,…, enums incl. unknown): encode
// either refuses or decode(encode(v)) == v; (B) structured byte strings (valid encodings with
// each length field varied, every truncation): whatever decodes must re-encode and decode to
// the same value.
package main

import (
	"bytes"
	"fmt"
	"io"
	"net"
	"reflect"
	"strings"
	"time"

	"github.com/creack/pty"

	"hop.computer/hop/authgrants"
	"hop.computer/hop/certs"
	"hop.computer/hop/codex"
	"hop.computer/hop/common"
	"hop.computer/hop/core"
	"hop.computer/hop/keys"
	"hop.computer/hop/portforwarding"
	"hop.computer/hop/tubes"
	"hop.computer/hop/userauth"
	"hop.computer/hop/zzverif/tuberig"
	"hop.computer/hop/zzverif/vk"
)

var R *vk.Run

func str(n int, c byte) string { return strings.Repeat(string([]byte{c}), n) }

// report helpers ------------------------------------------------------------------------------

func bad(codec, class, what string, c any) {
	R.Violation(codec+":"+class, what, c)
}

// roundTrip runs enc/dec under recover and applies oracle A. enc returns (bytes, refused).
func oracleA(codec, desc string, class string, enc func() ([]byte, error), dec func(b []byte) (consumed int, equal bool, err error)) {
	R.Eval()
	R.Distinct(codec + "|" + desc)
	var b []byte
	var err error
	if pn := vk.Try(func() { b, err = enc() }); pn != "" {
		bad(codec, class+":encode-panic", fmt.Sprintf("%s: encoding %s panics instead of refusing: %s", codec, desc, pn), desc)
		return
	}
	if err != nil {
		return // refused: fine
	}
	var consumed int
	var equal bool
	if pn := vk.Try(func() { consumed, equal, err = dec(b) }); pn != "" {
		bad(codec, class+":decode-panic", fmt.Sprintf("%s: decoding the encoding of %s panics: %s", codec, desc, pn), desc)
		return
	}
	if err != nil {
		bad(codec, class+":undecodable", fmt.Sprintf("%s: %s was encoded without error (%d bytes) but its encoding does not decode: %v", codec, desc, len(b), err), desc)
		return
	}
	if !equal {
		bad(codec, class+":changed", fmt.Sprintf("%s: %s was encoded without error but decodes to a different value (silent truncation / mis-framing)", codec, desc), desc)
		return
	}
	if consumed >= 0 && consumed != len(b) {
		bad(codec, class+":framing", fmt.Sprintf("%s: %s encodes to %d bytes but the decoder consumes %d", codec, desc, len(b), consumed), desc)
	}
}

// oracleB: b decodes -> re-encode must succeed and decode to the same value.
func oracleB(codec, desc, class string, b []byte, dec func(b []byte) (v any, err error), enc func(v any) ([]byte, error), eq func(a, b any) bool) {
	R.Eval()
	var v any
	var err error
	if pn := vk.Try(func() { v, err = dec(b) }); pn != "" {
		bad(codec, class+":decode-panic", fmt.Sprintf("%s: decoder panics on %s: %s", codec, desc, pn), fmt.Sprintf("%x", clipB(b)))
		return
	}
	if err != nil {
		return
	}
	R.Distinct(codec + "|B|" + desc)
	var b2 []byte
	if pn := vk.Try(func() { b2, err = enc(v) }); pn != "" {
		bad(codec, class+":reencode-panic", fmt.Sprintf("%s: %s decodes but re-encoding the value panics: %s", codec, desc, pn), fmt.Sprintf("%x", clipB(b)))
		return
	}
	if err != nil {
		bad(codec, class+":reencode-refused", fmt.Sprintf("%s: %s decodes but the decoded value cannot be re-encoded: %v", codec, desc, err), fmt.Sprintf("%x", clipB(b)))
		return
	}
	var v2 any
	if pn := vk.Try(func() { v2, err = dec(b2) }); pn != "" || err != nil {
		bad(codec, class+":reencode-undecodable", fmt.Sprintf("%s: %s decodes, re-encodes, but the re-encoding does not decode (%v %s)", codec, desc, err, pn), fmt.Sprintf("%x", clipB(b)))
		return
	}
	if !eq(v, v2) {
		bad(codec, class+":reencode-changed", fmt.Sprintf("%s: %s decodes to a value whose re-encoding decodes to a different value", codec, desc), fmt.Sprintf("%x", clipB(b)))
	}
}

func clipB(b []byte) []byte {
	if len(b) > 64 {
		return b[:64]
	}
	return b
}

var lens = []int{0, 1, 2, 252, 253, 254, 255, 256, 257, 300, 65535, 65536}

// ---- certs.Name ----

func nameEq(a, b certs.Name) bool { return a.Type == b.Type && bytes.Equal(a.Label, b.Label) }

func names() {
	for _, l := range lens {
		for _, t := range []certs.IDType{0, 1, 2, 3, 4, 255} {
			n := certs.Name{Label: []byte(str(l, 'n')), Type: t}
			oracleA("certs.Name", fmt.Sprintf("label=%d,type=%d", l, t), fmt.Sprintf("label=%d", l), func() ([]byte, error) {
				var buf bytes.Buffer
				_, err := n.WriteTo(&buf)
				return buf.Bytes(), err
			}, func(b []byte) (int, bool, error) {
				var m certs.Name
				k, err := m.ReadFrom(bytes.NewReader(b))
				// the same bytes decoded into a value that already held another name must give
				// the same result (no stale state), and "is the zero name" must survive the trip
				m2 := certs.Name{Label: []byte("stale.example"), Type: certs.TypeDNSName}
				_, err2 := m2.ReadFrom(bytes.NewReader(b))
				same := (err == nil) == (err2 == nil) && (err != nil || (nameEq(m, m2) && m.IsZero() == m2.IsZero()))
				return int(k), nameEq(n, m) && n.IsZero() == m.IsZero() && same, err
			})
		}
	}
	// B: structured bytes
	for _, idLen := range []int{0, 1, 5, 252} {
		for _, bs := range []int{0, 1, 2, 3, idLen + 2, idLen + 3, idLen + 4, 255} {
			if bs < 0 || bs > 255 {
				continue
			}
			for _, il := range []int{idLen, idLen + 1, 255} {
				full := append([]byte{byte(bs), 1, byte(il)}, []byte(str(idLen, 'x'))...)
				for cut := 0; cut <= len(full); cut++ {
					if cut > 6 && cut < len(full)-2 {
						continue
					}
					oracleB("certs.Name", fmt.Sprintf("blocksize=%d,idlen-field=%d,label=%d,cut=%d", bs, il, idLen, cut), "bytes", full[:cut],
						func(b []byte) (any, error) {
							var m certs.Name
							_, err := m.ReadFrom(bytes.NewReader(b))
							return m, err
						}, func(v any) ([]byte, error) {
							m := v.(certs.Name)
							var buf bytes.Buffer
							_, err := m.WriteTo(&buf)
							return buf.Bytes(), err
						}, func(a, b any) bool { return nameEq(a.(certs.Name), b.(certs.Name)) })
				}
			}
		}
	}
}

// ---- certificates ----

func certEq(a, b *certs.Certificate) bool {
	if a.Version != b.Version || a.Type != b.Type || a.IssuedAt.Unix() != b.IssuedAt.Unix() || a.ExpiresAt.Unix() != b.ExpiresAt.Unix() ||
		a.PublicKey != b.PublicKey || a.Parent != b.Parent || a.Signature != b.Signature || len(a.IDChunk.Blocks) != len(b.IDChunk.Blocks) {
		return false
	}
	for i := range a.IDChunk.Blocks {
		if !nameEq(a.IDChunk.Blocks[i], b.IDChunk.Blocks[i]) {
			return false
		}
	}
	return true
}

func mkCert(version byte, typ certs.CertificateType, t1, t2 int64, blocks []certs.Name) *certs.Certificate {
	c := &certs.Certificate{Version: version, Type: typ, IssuedAt: time.Unix(t1, 0), ExpiresAt: time.Unix(t2, 0), IDChunk: certs.IDChunk{Blocks: blocks}}
	for i := range c.PublicKey {
		c.PublicKey[i] = byte(i + 1)
		c.Parent[i] = byte(0xa0 + i)
	}
	for i := range c.Signature {
		c.Signature[i] = byte(0x40 + i)
	}
	return c
}

func certificates() {
	nm := func(ls ...int) []certs.Name {
		var o []certs.Name
		for i, l := range ls {
			o = append(o, certs.Name{Label: []byte(str(l, byte('a'+i))), Type: certs.IDType(i % 4)})
		}
		return o
	}
	blockSets := [][]int{{}, {0}, {1}, {252}, {253}, {255}, {256}, {252, 252}, {252, 251}, {252, 253}, {250, 250, 1}, {252, 252, 0}, {100, 100, 100, 100, 92}, {100, 100, 100, 100, 93}}
	times := []int64{0, 1, 1 << 31, 1 << 62}
	for _, bs := range blockSets {
		for _, ver := range []byte{1, 0, 255} {
			for _, typ := range []certs.CertificateType{1, 2, 3, 0, 4, 255} {
				for _, t1 := range times {
					if (ver != 1 || typ != 1) && t1 != 1 {
						continue // full time grid only on the baseline version/type
					}
					c := mkCert(ver, typ, t1, times[(len(bs)+int(typ))%4], nm(bs...))
					desc := fmt.Sprintf("blocks=%v,version=%d,type=%d,issued=%d", bs, ver, typ, t1)
					total := 2
					for _, l := range bs {
						total += l + 3
					}
					oracleA("certs.Certificate", desc, fmt.Sprintf("idchunk=%d", total), func() ([]byte, error) { return c.Marshal() }, func(b []byte) (int, bool, error) {
						d := new(certs.Certificate)
						k, err := d.ReadFrom(bytes.NewReader(b))
						return int(k), err == nil && certEq(c, d), err
					})
					if ver == 1 && typ == 1 && t1 == 1 {
						oracleA("certs.Certificate/PEM", desc, fmt.Sprintf("idchunk=%d", total), func() ([]byte, error) { return certs.EncodeCertificateToPEM(c) }, func(b []byte) (int, bool, error) {
							d, err := certs.ReadCertificatePEM(b)
							return -1, err == nil && certEq(c, d), err
						})
					}
				}
			}
		}
	}
	// B: a valid certificate with the chunk length and block size fields varied, every truncation
	base, _ := mkCert(1, 1, 5, 9, nm(3, 4)).Marshal()
	off := 4 + 8 + 8 + 32 + 32 // chunk length
	dec := func(b []byte) (any, error) {
		d := new(certs.Certificate)
		n, err := d.ReadFrom(bytes.NewReader(b))
		if err == nil && int(n) != len(b) {
			return nil, fmt.Errorf("trailing bytes") // callers (ReadManyCertificatesPEM, handshake) insist on exact length
		}
		return d, err
	}
	enc := func(v any) ([]byte, error) { return v.(*certs.Certificate).Marshal() }
	eq := func(a, b any) bool { return certEq(a.(*certs.Certificate), b.(*certs.Certificate)) }
	for cut := 0; cut <= len(base); cut++ {
		oracleB("certs.Certificate", fmt.Sprintf("valid,cut=%d", cut), "bytes", base[:cut], dec, enc, eq)
	}
	for _, cl := range []int{0, 1, 2, 3, 5, 14, 15, 16, 17, 512, 513, 65535} {
		for _, bs0 := range []int{-1, 0, 2, 3, 5, 6, 7, 255} {
			for _, il := range []int{-1, 0, 2, 3, 4, 255} {
				b := append([]byte{}, base...)
				b[off], b[off+1] = byte(cl>>8), byte(cl)
				if bs0 >= 0 {
					b[off+2] = byte(bs0)
				}
				if il >= 0 {
					b[off+4] = byte(il)
				}
				for _, extra := range []int{0, 1, 3} {
					oracleB("certs.Certificate", fmt.Sprintf("chunklen=%d,blocksize0=%d,idlen0=%d,extra=%d", cl, bs0, il, extra), "bytes", append(b, make([]byte, extra)...), dec, enc, eq)
				}
			}
		}
	}
}

// ---- common strings ----

func stringsCodec() {
	for _, l := range lens {
		s := str(l, 's')
		oracleA("common.WriteString", fmt.Sprintf("len=%d", l), fmt.Sprintf("len=%d", l), func() ([]byte, error) {
			var buf bytes.Buffer
			_, err := common.WriteString(s, &buf)
			return buf.Bytes(), err
		}, func(b []byte) (int, bool, error) {
			got, n, err := common.ReadString(bytes.NewReader(b))
			return int(n), got == s, err
		})
	}
}

// ---- authgrants ----

func delegateCert() certs.Certificate {
	k := keys.GenerateNewX25519KeyPair()
	c, err := certs.SelfSignLeaf(&certs.Identity{PublicKey: k.Public, Names: []certs.Name{certs.RawStringName("delegate")}})
	if err != nil {
		panic(err)
	}
	b, _ := c.Marshal()
	var out certs.Certificate
	out.ReadFrom(bytes.NewReader(b))
	return out
}

func intentEq(a, b authgrants.Intent) bool {
	return a.GrantType == b.GrantType && a.Reserved == b.Reserved && a.TargetPort == b.TargetPort && a.StartTime.Unix() == b.StartTime.Unix() &&
		a.ExpTime.Unix() == b.ExpTime.Unix() && nameEq(a.TargetSNI, b.TargetSNI) && a.TargetUsername == b.TargetUsername &&
		certEq(&a.DelegateCert, &b.DelegateCert) &&
		// associated data is a union selected by the grant type: only the selected member is part of the value
		(a.GrantType != authgrants.Command || a.AssociatedData.CommandGrantData.Cmd == b.AssociatedData.CommandGrantData.Cmd)
}

func intents() {
	dc := delegateCert()
	base := func() authgrants.Intent {
		return authgrants.Intent{GrantType: authgrants.Command, TargetPort: 77, StartTime: time.Unix(1000, 0), ExpTime: time.Unix(2000, 0),
			TargetSNI: certs.DNSName("target.example"), TargetUsername: "user", DelegateCert: dc,
			AssociatedData: authgrants.GrantData{CommandGrantData: authgrants.CommandGrantData{Cmd: "ls"}}}
	}
	type variant struct {
		desc, class string
		mod         func(i *authgrants.Intent)
	}
	var vs []variant
	vs = append(vs, variant{"baseline", "baseline", func(i *authgrants.Intent) {}})
	for _, g := range []authgrants.GrantType{0, 1, 2, 3, 4, 5, 6, 255} {
		g := g
		vs = append(vs, variant{fmt.Sprintf("granttype=%d", g), fmt.Sprintf("granttype=%d", g), func(i *authgrants.Intent) {
			i.GrantType = g
			if g != authgrants.Command {
				i.AssociatedData.CommandGrantData.Cmd = ""
			}
		}})
	}
	for _, rsv := range []byte{1, 255} {
		rsv := rsv
		vs = append(vs, variant{fmt.Sprintf("reserved=%d", rsv), "reserved", func(i *authgrants.Intent) { i.Reserved = rsv }})
	}
	for _, p := range []uint16{0, 1, 65535} {
		p := p
		vs = append(vs, variant{fmt.Sprintf("port=%d", p), "port", func(i *authgrants.Intent) { i.TargetPort = p }})
	}
	for _, t := range []int64{0, 1, 1 << 31, 1 << 62} {
		t := t
		vs = append(vs, variant{fmt.Sprintf("start=%d", t), "time", func(i *authgrants.Intent) { i.StartTime = time.Unix(t, 0) }},
			variant{fmt.Sprintf("exp=%d", t), "time", func(i *authgrants.Intent) { i.ExpTime = time.Unix(t, 0) }})
	}
	for _, l := range lens {
		l := l
		vs = append(vs, variant{fmt.Sprintf("username=%d", l), fmt.Sprintf("username=%d", l), func(i *authgrants.Intent) { i.TargetUsername = str(l, 'u') }},
			variant{fmt.Sprintf("cmd=%d", l), fmt.Sprintf("cmd=%d", l), func(i *authgrants.Intent) { i.AssociatedData.CommandGrantData.Cmd = str(l, 'c') }},
			variant{fmt.Sprintf("sni=%d", l), fmt.Sprintf("sni=%d", l), func(i *authgrants.Intent) {
				i.TargetSNI = certs.Name{Label: []byte(str(l, 'h')), Type: certs.TypeDNSName}
			}})
	}
	// all pairs of variants (<=2 fields off the baseline)
	for a := 0; a < len(vs); a++ {
		for b := a; b < len(vs); b++ {
			if b != a && (a == 0 || vs[a].class == vs[b].class) {
				continue
			}
			in := base()
			vs[a].mod(&in)
			desc, class := vs[a].desc, vs[a].class
			if b != a {
				vs[b].mod(&in)
				desc += "," + vs[b].desc
				if vs[b].class != "baseline" && !strings.HasPrefix(vs[a].class, "username") && !strings.HasPrefix(vs[a].class, "cmd") && !strings.HasPrefix(vs[a].class, "sni") && !strings.HasPrefix(vs[a].class, "granttype") {
					class = vs[b].class
				}
			}
			for _, mt := range []byte{1, 2} { // IntentRequest, IntentCommunication
				oracleA("authgrants.AgMessage(intent)", fmt.Sprintf("msgtype=%d,%s", mt, desc), class, func() ([]byte, error) {
					var buf bytes.Buffer
					var err error
					if mt == 1 {
						err = authgrants.WriteIntentRequest(&buf, in)
					} else {
						err = authgrants.WriteIntentCommunication(&buf, in)
					}
					return buf.Bytes(), err
				}, func(b []byte) (int, bool, error) {
					var m authgrants.AgMessage
					n, err := m.ReadFrom(bytes.NewReader(b))
					return int(n), err == nil && byte(m.MsgType) == mt && intentEq(m.Data.Intent, in), err
				})
			}
		}
	}
	// denial / confirmation
	for _, l := range lens {
		reason := str(l, 'd')
		oracleA("authgrants.AgMessage(denial)", fmt.Sprintf("reason=%d", l), fmt.Sprintf("reason=%d", l), func() ([]byte, error) {
			var buf bytes.Buffer
			err := authgrants.WriteIntentDenied(&buf, reason)
			return buf.Bytes(), err
		}, func(b []byte) (int, bool, error) {
			var m authgrants.AgMessage
			n, err := m.ReadFrom(bytes.NewReader(b))
			return int(n), err == nil && m.MsgType == authgrants.IntentDenied && m.Data.Denial == reason, err
		})
		oracleA("authgrants.WriteFailure", fmt.Sprintf("reason=%d", l), fmt.Sprintf("reason=%d", l), func() ([]byte, error) {
			var buf bytes.Buffer
			err := authgrants.WriteFailure(&buf, reason)
			return buf.Bytes(), err
		}, func(b []byte) (int, bool, error) {
			r := bytes.NewReader(b)
			err := authgrants.ReadResponse(r)
			if err == nil {
				return len(b) - r.Len(), false, nil
			}
			return len(b) - r.Len(), err.Error() == reason, nil
		})
	}
	oracleA("authgrants.AgMessage(confirmation)", "confirmation", "confirmation", func() ([]byte, error) {
		var buf bytes.Buffer
		err := authgrants.WriteIntentConfirmation(&buf)
		return buf.Bytes(), err
	}, func(b []byte) (int, bool, error) {
		m, err := authgrants.ReadConfOrDenial(bytes.NewReader(b))
		return 1, err == nil && m.MsgType == authgrants.IntentConfirmation, err
	})
	// target info
	for _, hl := range []int{1, 10, 200, 240, 250, 256, 300} {
		for _, u := range []string{"", "user", str(40, 'u')} {
			url := core.URL{Host: str(hl, 'h'), Port: "77", User: u}
			oracleA("authgrants.TargetInfo", fmt.Sprintf("host=%d,user=%d", hl, len(u)), fmt.Sprintf("urllen=%d", len(url.String())/64*64), func() ([]byte, error) {
				var buf bytes.Buffer
				err := authgrants.WriteTargetInfo(url, &buf)
				return buf.Bytes(), err
			}, func(b []byte) (int, bool, error) {
				r := bytes.NewReader(b)
				got, err := authgrants.ReadTargetInfo(r)
				return len(b) - r.Len(), err == nil && *got == url, err
			})
		}
	}
	// B: valid intent message with the one-byte length fields varied and every truncation
	in := base()
	var buf bytes.Buffer
	authgrants.WriteIntentRequest(&buf, in)
	valid := buf.Bytes()
	dec := func(b []byte) (any, error) {
		var m authgrants.AgMessage
		_, err := m.ReadFrom(bytes.NewReader(b))
		return m, err
	}
	enc := func(v any) ([]byte, error) {
		m := v.(authgrants.AgMessage)
		var buf bytes.Buffer
		_, err := m.WriteTo(&buf)
		return buf.Bytes(), err
	}
	eq := func(a, b any) bool {
		x, y := a.(authgrants.AgMessage), b.(authgrants.AgMessage)
		return x.MsgType == y.MsgType && x.Data.Denial == y.Data.Denial && intentEq(x.Data.Intent, y.Data.Intent)
	}
	for cut := 0; cut <= len(valid); cut++ {
		oracleB("authgrants.AgMessage", fmt.Sprintf("valid-intent,cut=%d", cut), "bytes", valid[:cut], dec, enc, eq)
	}
	for _, pos := range []int{0, 1, 2} { // msg type, grant type, reserved
		for v := 0; v < 256; v++ {
			b := append([]byte{}, valid...)
			b[pos] = byte(v)
			oracleB("authgrants.AgMessage", fmt.Sprintf("byte%d=%d", pos, v), "bytes", b, dec, enc, eq)
		}
	}
}

// ---- tube frames ----

func frames() {
	for flags := 0; flags < 64; flags++ {
		for _, id := range []byte{0, 1, 255} {
			for _, n := range []uint32{0, 1, 1 << 31, 1<<32 - 1} {
				for _, dl := range []int{0, 1, 100} {
					data := []byte(str(dl, 'd'))
					f := tubes.VerifFrame{AckNo: n, FrameNo: n ^ 5, DataLength: uint16(dl), Flags: byte(flags), TubeID: id, Data: data}
					oracleA("tubes.frame", fmt.Sprintf("flags=%02x,id=%d,n=%d,len=%d", flags, id, n, dl), "consistent", func() ([]byte, error) { return tubes.VerifFrameEncode(f), nil }, func(b []byte) (int, bool, error) {
						g, err := tubes.VerifFrameDecode(b)
						return -1, err == nil && g.AckNo == f.AckNo && g.FrameNo == f.FrameNo && g.DataLength == f.DataLength && g.Flags == f.Flags && g.TubeID == f.TubeID && bytes.Equal(g.Data, f.Data), err
					})
					fi := tubes.VerifInitFrame{FrameNo: n, TubeID: id, TubeType: byte(flags), DataLength: uint16(dl), Flags: byte(flags), Data: data}
					oracleA("tubes.initiateFrame", fmt.Sprintf("flags=%02x,id=%d,n=%d,len=%d", flags, id, n, dl), "consistent", func() ([]byte, error) { return tubes.VerifInitEncode(fi), nil }, func(b []byte) (int, bool, error) {
						g := tubes.VerifInitDecode(b)
						return -1, g.FrameNo == fi.FrameNo && g.TubeID == fi.TubeID && g.TubeType == fi.TubeType && g.DataLength == fi.DataLength && g.Flags == fi.Flags && bytes.Equal(g.Data, fi.Data), nil
					})
				}
			}
		}
	}
}

// ---- exec init ----

type rwConn struct {
	io.Reader
	net.Conn
}

func (c rwConn) Read(b []byte) (int, error) { return c.Reader.Read(b) }

func execInit() {
	sizes := []*pty.Winsize{nil, {Rows: 1, Cols: 2, X: 3, Y: 4}, {Rows: 65535, Cols: 65535, X: 0, Y: 65535}}
	for _, usePty := range []bool{false, true} {
		for _, cl := range []int{0, 1, 255, 256, 65535, 65536, 70000} {
			for _, tl := range []int{0, 1, 20, 256} {
				for si, sz := range sizes {
					cmd, term := str(cl, 'c'), str(tl, 't')
					oracleA("codex.execInitMsg", fmt.Sprintf("pty=%v,cmd=%d,term=%d,size=%d", usePty, cl, tl, si), fmt.Sprintf("cmd=%d", cl), func() ([]byte, error) { return codex.VerifExecInit(usePty, cmd, term, sz), nil }, func(b []byte) (int, bool, error) {
						r := bytes.NewReader(b)
						c, t, p, s, err := codex.GetCmd(rwConn{Reader: r})
						eq := c == cmd && t == term && p == usePty && ((s == nil) == (sz == nil)) && (s == nil || *s == *sz)
						return len(b) - r.Len(), eq, err
					})
				}
			}
		}
	}
}

// ---- port forwarding ----

func addrEq(a, b net.Addr) bool {
	return reflect.TypeOf(a) == reflect.TypeOf(b) && a.String() == b.String()
}

func portFwd() {
	ips := []net.IP{net.ParseIP("127.0.0.1"), net.ParseIP("::1"), net.ParseIP("10.1.2.3"), net.ParseIP("2001:db8::1"), nil}
	ports := []int{0, 1, 80, 32767, 32768, 65535}
	if R.Thorough() {
		ports = nil
		for p := 0; p <= 65535; p += 251 { // every residue of the low byte and every high byte
			ports = append(ports, p)
		}
		ports = append(ports, 1, 255, 256, 32767, 32768, 65535)
	}
	for _, ip := range ips {
		for _, p := range ports {
			for _, ft := range []int{portforwarding.PfLocal, portforwarding.PfRemote, 0, 255} {
				for _, mk := range []func() net.Addr{func() net.Addr { return &net.TCPAddr{IP: ip, Port: p} }, func() net.Addr { return &net.UDPAddr{IP: ip, Port: p} }} {
					a := mk()
					oracleA("portforwarding.request", fmt.Sprintf("%T %s fwd=%d", a, a, ft), fmt.Sprintf("port=%d", p), func() ([]byte, error) {
						b := portforwarding.VerifToBytes(a, ft)
						if b == nil {
							return nil, fmt.Errorf("refused")
						}
						return b, nil
					}, func(b []byte) (int, bool, error) {
						r := bytes.NewReader(b)
						got, gft, err := portforwarding.VerifReadPacket(r)
						return len(b) - r.Len(), err == nil && addrEq(got, a) && gft == byte(ft), err
					})
				}
			}
		}
	}
	for _, l := range []int{1, 107, 255, 256, 65535, 65536, 65600} {
		a := &net.UnixAddr{Name: "/" + str(l-1, 'p'), Net: "unix"}
		oracleA("portforwarding.request", fmt.Sprintf("unix path len=%d", l), fmt.Sprintf("unixpath=%d", l), func() ([]byte, error) {
			b := portforwarding.VerifToBytes(a, portforwarding.PfLocal)
			if b == nil {
				return nil, fmt.Errorf("refused")
			}
			return b, nil
		}, func(b []byte) (int, bool, error) {
			r := bytes.NewReader(b)
			got, _, err := portforwarding.VerifReadPacket(r)
			return len(b) - r.Len(), err == nil && addrEq(got, a), err
		})
	}
	// B: structured request bytes
	valid := portforwarding.VerifToBytes(&net.TCPAddr{IP: net.ParseIP("127.0.0.1"), Port: 8080}, portforwarding.PfLocal)
	dec := func(b []byte) (any, error) {
		a, ft, err := portforwarding.VerifReadPacket(bytes.NewReader(b))
		return [2]any{a, ft}, err
	}
	enc := func(v any) ([]byte, error) {
		x := v.([2]any)
		b := portforwarding.VerifToBytes(x[0].(net.Addr), int(x[1].(byte)))
		if b == nil {
			return nil, fmt.Errorf("refused")
		}
		return b, nil
	}
	eq := func(a, b any) bool {
		x, y := a.([2]any), b.([2]any)
		return addrEq(x[0].(net.Addr), y[0].(net.Addr)) && x[1] == y[1]
	}
	for nt := 0; nt < 6; nt++ {
		for _, addr := range []string{"127.0.0.1:8080", "[::1]:1", "host:80", "127.0.0.1:99999", "127.0.0.1:-1", "127.0.0.1:abc", ":80", "", "/tmp/sock", "1.2.3.4:40000"} {
			b := []byte{byte(nt), 4, byte(len(addr) >> 8), byte(len(addr))}
			b = append(b, addr...)
			oracleB("portforwarding.request", fmt.Sprintf("nettype=%d,addr=%q", nt, addr), "bytes", b, dec, enc, eq)
		}
	}
	for cut := 0; cut <= len(valid); cut++ {
		oracleB("portforwarding.request", fmt.Sprintf("valid,cut=%d", cut), "bytes", valid[:cut], dec, enc, eq)
	}
}

// ---- key text forms ----

func keyText() {
	for i := 0; i < 8; i++ {
		var dh keys.DHPublicKey
		var sg keys.SigningPublicKey
		for j := range dh {
			dh[j] = byte(i*37 + j*11)
			sg[j] = byte(i*41 + j*7)
		}
		if i == 0 {
			dh, sg = keys.DHPublicKey{}, keys.SigningPublicKey{}
		}
		if i == 1 {
			for j := range dh {
				dh[j], sg[j] = 0xff, 0xff
			}
		}
		oracleA("keys.DHPublicKey", fmt.Sprint("key#", i), "text", func() ([]byte, error) { return []byte(dh.String()), nil }, func(b []byte) (int, bool, error) {
			k, err := keys.ParseDHPublicKey(string(b))
			return -1, err == nil && *k == dh, err
		})
		oracleA("keys.SigningPublicKey", fmt.Sprint("key#", i), "text", func() ([]byte, error) { return []byte(sg.String()), nil }, func(b []byte) (int, bool, error) {
			k, err := keys.ParseSigningPublicKey(string(b))
			return -1, err == nil && *k == sg, err
		})
	}
	for i := 0; i < 3; i++ {
		seed := bytes.Repeat([]byte{byte(i + 1)}, keys.MlKem512KeySeedSize)
		kp, err := keys.GenerateKEMKeyPairFromSeed(seed)
		if err != nil {
			R.EngineError("kem keygen: %v", err)
			return
		}
		pk := kp.Public
		want, _ := pk.MarshalBinary()
		oracleA("keys.KEMPublicKey", fmt.Sprint("key#", i), "text", func() ([]byte, error) { return []byte(keys.KEMPublicKeyToString(&pk)), nil }, func(b []byte) (int, bool, error) {
			k, err := keys.ParseKEMPublicKey(string(b))
			if err != nil {
				return -1, false, err
			}
			got, _ := (*k).MarshalBinary()
			return -1, bytes.Equal(got, want), nil
		})
	}
}

// ---- userauth over a real tube ----

func userAuth() {
	m := tuberig.NewMuxers(5 * time.Second)
	defer m.Stop()
	for _, l := range []int{1, 2, 255, 256, 1000, 65535, 65536, 65540} {
		name := str(l, 'u')
		c, s, err := m.ReliablePair(tubes.TubeType(2))
		if err != nil {
			R.EngineError("userauth: cannot open tube: %v", err)
			return
		}
		R.Eval()
		R.Distinct(fmt.Sprintf("userauth|%d", l))
		// encoder = the client's RequestAuthorization (writes the request, then waits for the
		// one-byte verdict); decoder = the server's GetInitMsg
		reqDone := make(chan bool, 1)
		go func() {
			defer func() {
				if p := recover(); p != nil {
					reqDone <- false
				}
			}()
			reqDone <- userauth.RequestAuthorization(c, name)
		}()
		res := make(chan string, 1)
		go func() {
			defer func() {
				if p := recover(); p != nil {
					res <- fmt.Sprint("PANIC:", p)
				}
			}()
			res <- userauth.GetInitMsg(s)
		}()
		select {
		case got := <-res:
			if strings.HasPrefix(got, "PANIC:") {
				bad("userauth.initMsg", fmt.Sprintf("len=%d:decode-panic", l), "GetInitMsg panics: "+got, l)
			} else if got != name {
				bad("userauth.initMsg", fmt.Sprintf("len=%d:changed", l), fmt.Sprintf("a %d-byte user name is sent without refusal but the server reads a %d-byte name (silent truncation)", l, len(got)), l)
			}
			s.Write([]byte{userauth.UserAuthConf})
			select {
			case ok := <-reqDone:
				if !ok && got == name {
					bad("userauth.initMsg", fmt.Sprintf("len=%d:verdict", l), "the server confirmed but RequestAuthorization reports a denial", l)
				}
			case <-time.After(10 * time.Second):
				bad("userauth.initMsg", fmt.Sprintf("len=%d:stuck", l), "RequestAuthorization did not return after the verdict", l)
			}
		case ok := <-reqDone:
			// returned before the server got anything: the client refused to send (fine), unless it
			// claims success
			if ok {
				bad("userauth.initMsg", fmt.Sprintf("len=%d:verdict", l), "RequestAuthorization reports success although the server never answered", l)
			}
		case <-time.After(10 * time.Second):
			bad("userauth.initMsg", fmt.Sprintf("len=%d:stuck", l), "neither side returned for this name", l)
		}
		c.Close()
		s.Close()
	}
}

func main() {
	R = vk.New("C18", "exploration")
	if R.Thorough() {
		// every length up to 700 (all one-byte length fields and the label / chunk limits lie inside),
		// the powers of two up to 128 KiB and the 16-bit edge
		lens = nil
		for l := 0; l <= 700; l++ {
			lens = append(lens, l)
		}
		lens = append(lens, 1023, 1024, 1025, 4095, 4096, 4097, 32767, 32768, 65534, 65535, 65536, 65537, 70000, 131072)
	}
	R.SetRule("per codec a value grid (lengths 0,1,2,252..257,300,65535,65536 in the quick tier; every length 0..700 plus 1023..1025, 4095..4097, 32767, 32768, 65534..65537, 70000, 131072 in the thorough tier; enums incl. unknown; times 0,1,2^31,2^62; ports; all 64 frame flag combinations; <=2 fields off a baseline for intents) under oracle A (encode refuses, or decode(encode(v)) == v consuming exactly the bytes written; for names also: IsZero preserved and decoding into a value that already held another name gives the same result), and structured byte strings (valid encodings with each length / type / reserved byte varied and every truncation) under oracle B (what decodes re-encodes and decodes to the same value). Codecs: certs.Name, Certificate (+PEM), common strings, authgrants intent request/communication/denial/confirmation, proxy target info and failure, tube frame and initiate frame, exec init message, port-forward request, user-auth request (through a real reliable tube), DH / signing / KEM public-key text forms. distinct_nontrivial = distinct (codec, case) pairs that reached the decoder.")
	names()
	certificates()
	stringsCodec()
	intents()
	frames()
	execInit()
	portFwd()
	keyText()
	userAuth()
	R.Assume("times are compared by Unix seconds and restricted to [0, 2^63); frames are only judged for values whose dataLength equals len(data) (the constructors' invariant)")
	R.Finish()
}
