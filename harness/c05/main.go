// C05 — user login only by a listed key or a live grant, failing closed.
// (1) every authorized_keys file of <=N lines over 18 line kinds (x final newline) plus missing /
// unreadable / failing files, x users x client keys, on a real HopServer; (2) explicit-state BFS
// over grant histories (AddAuthGrant / Login) with authgrants enabled and disabled, against a
// multiset-of-live-grants reference.
package main

import (
	"bytes"
	"encoding/base64"
	"errors"
	"flag"
	"fmt"
	"io"
	"io/fs"
	"os"
	"os/exec"
	"sort"
	"strings"
	"sync"
	"testing/fstest"
	"time"

	"github.com/AstromechZA/etcpwdparse"

	"hop.computer/hop/authgrants"
	"hop.computer/hop/authkeys"
	"hop.computer/hop/certs"
	"hop.computer/hop/config"
	"hop.computer/hop/hopserver"
	"hop.computer/hop/keys"
	"hop.computer/hop/pkg/thunks"
	"hop.computer/hop/zzverif/seqx"
	"hop.computer/hop/zzverif/vk"
)

var e3Bin = flag.String("bin-e3", "", "the concurrent-logins harness (c05x), built with the grant map rewritten for the scheduler")

var K [4]keys.DHPublicKey // K[1], K[2] client keys; K[3] another user's key

func init() {
	for i := 1; i <= 3; i++ {
		for j := range K[i] {
			K[i][j] = byte(i*50 + j)
		}
	}
	thunks.LookupUser = func(u string) (*etcpwdparse.EtcPasswdEntry, error) {
		if u != "alice" && u != "bob" {
			return nil, thunks.ErrUserNotFound
		}
		e, err := etcpwdparse.ParsePasswdLine(fmt.Sprintf("%s:x:1000:1000:T:/home/%s:/bin/sh", u, u))
		return &e, err
	}
}

func b64(k keys.DHPublicKey) string { return base64.StdEncoding.EncodeToString(k[:]) }

var lineKinds = []struct {
	name string
	text string
}{
	{"K1", ""}, {"K2", ""}, {"K3", ""}, {"comment", "# a comment"}, {"empty", ""}, {"blanks", "   \t "}, {"garbage", "garbage"},
	{"K1-truncated-base64", ""}, {"K1-sign-prefix", ""}, {"31-byte-key", ""}, {"K1-trailing-blanks", ""}, {"K1-CR", ""},
	// a valid key text that is not the whole entry: commented out, text before / after it, twice on a line, prefix in capitals
	{"K1-commented-out", ""}, {"K1-commented-out-blank", ""}, {"K1-text-before", ""}, {"K1-text-after", ""}, {"K1-twice", ""}, {"K1-capital-prefix", ""},
}

func init() {
	set := func(n, t string) {
		for i := range lineKinds {
			if lineKinds[i].name == n {
				lineKinds[i].text = t
			}
		}
	}
	set("K1", K[1].String())
	set("K2", K[2].String())
	set("K3", K[3].String())
	set("K1-truncated-base64", K[1].String()[:len(K[1].String())-5])
	set("K1-sign-prefix", keys.SigningPublicKeyPrefix+b64(K[1]))
	set("31-byte-key", keys.DHPublicKeyPrefix+base64.StdEncoding.EncodeToString(K[1][:31]))
	set("K1-trailing-blanks", K[1].String()+"  \t")
	set("K1-CR", K[1].String()+"\r")
	set("K1-commented-out", "#"+K[1].String())
	set("K1-commented-out-blank", "# "+K[1].String())
	set("K1-text-before", "revoked:"+K[1].String())
	set("K1-text-after", K[1].String()+" alice@laptop")
	set("K1-twice", K[1].String()+K[1].String())
	set("K1-capital-prefix", strings.ToUpper(keys.DHPublicKeyPrefix)+b64(K[1]))
}

// listed is the property's notion, line by line: after trimming white space the line is exactly
// the text form of key.
func listed(content string, key keys.DHPublicKey) bool {
	want := keys.DHPublicKeyPrefix + b64(key)
	for _, l := range strings.Split(content, "\n") {
		if strings.TrimSpace(l) == want {
			return true
		}
	}
	return false
}

// failing file systems
type errFS struct{ err error }

func (e errFS) Open(string) (fs.File, error) { return nil, e.err }

type shortFile struct {
	data []byte
	n    int
	pos  int
}

func (f *shortFile) Stat() (fs.FileInfo, error) { return nil, errors.New("no stat") }
func (f *shortFile) Close() error               { return nil }
func (f *shortFile) Read(b []byte) (int, error) {
	if f.pos >= f.n {
		return 0, errors.New("simulated read error")
	}
	k := copy(b, f.data[f.pos:f.n])
	f.pos += k
	return k, nil
}

type shortFS struct {
	data []byte
	n    int
}

func (s shortFS) Open(string) (fs.File, error) { return &shortFile{data: s.data, n: s.n}, nil }

func newServer(enableGrants bool) *hopserver.HopServer {
	sock := "/nonexistent/agproxy.sock"
	s, err := hopserver.NewHopServerExt(nil, &config.ServerConfig{EnableAuthgrants: enableGrants, AgProxyListenSocket: &sock}, authkeys.NewSyncAuthKeySet())
	if err != nil {
		panic(err)
	}
	return s
}

// login composes the two exported steps exactly as hopSession.checkAuthorization does.
func login(s *hopserver.HopServer, enableGrants bool, user string, key keys.DHPublicKey) (granted, viaGrant bool, actions int) {
	if err := s.AuthorizeKey(user, key); err != nil {
		if enableGrants {
			a, err := s.AuthorizeKeyAuthGrant(user, key)
			if err != nil {
				return false, false, 0
			}
			return true, true, len(a)
		}
		return false, false, 0
	}
	return true, false, 0
}

func files(r *vk.Run) {
	maxLines := 3
	if r.Thorough() {
		maxLines = 4
	}
	var seqs [][]int
	var rec func(cur []int)
	rec = func(cur []int) {
		seqs = append(seqs, append([]int{}, cur...))
		if len(cur) == maxLines {
			return
		}
		for k := range lineKinds {
			rec(append(cur, k))
		}
	}
	rec(nil)
	var granted, total int64
	var mu sync.Mutex
	r.Parallel(len(seqs), func(i int) {
		var lines, names []string
		for _, k := range seqs[i] {
			lines = append(lines, lineKinds[k].text)
			names = append(names, lineKinds[k].name)
		}
		for _, finalNL := range []bool{true, false} {
			content := strings.Join(lines, "\n")
			if finalNL && len(lines) > 0 {
				content += "\n"
			}
			if !finalNL && len(lines) == 0 {
				continue
			}
			s := newServer(false)
			s.SetFSystem(fstest.MapFS{
				"home/alice/.hop/authorized_keys": &fstest.MapFile{Data: []byte(content)},
				"home/bob/.hop/authorized_keys":   &fstest.MapFile{Data: []byte(K[3].String() + "\n")},
			})
			for _, user := range []string{"alice", "bob", "mallory"} {
				for ki := 1; ki <= 2; ki++ {
					r.Eval()
					var ok bool
					if pn := vk.Try(func() { ok, _, _ = login(s, false, user, K[ki]) }); pn != "" {
						r.Violation("file:panic", fmt.Sprintf("login panics for file %v: %s", names, pn), names)
						continue
					}
					is := user == "alice" && listed(content, K[ki])
					mu.Lock()
					total++
					if ok {
						granted++
					}
					mu.Unlock()
					if ok && !is {
						cls := "unlisted-key"
						if user != "alice" {
							cls = "wrong-user"
						}
						bad := "clean"
						for _, n := range names {
							if n != "K1" && n != "K2" && n != "K3" && n != "empty" && n != "blanks" && n != "K1-trailing-blanks" && n != "K1-CR" {
								bad = "with-unparseable-line"
							}
						}
						r.Violation("file:"+cls+":"+bad, fmt.Sprintf("user %s was granted access with key K%d although it is not a well-formed entry of that user's authorized_keys; file lines=%v final-newline=%v", user, ki, names, finalNL), map[string]any{"lines": names, "final_newline": finalNL, "user": user, "key": ki})
					}
				}
			}
		}
		r.Distinct(strings.Join(names, ","))
		if i%997 == 0 {
			r.Sample(names)
		}
	})
	r.Set("file_sequences", len(seqs))
	r.Set("file_logins", total)
	r.Set("file_logins_granted", granted)
	if granted == 0 {
		r.Violation("file:vacuous", "no authorized_keys file granted anything: the check would be vacuous", nil)
	}
	// near-miss keys: every single-bit variant of a listed key must be refused (clean file)
	{
		s := newServer(false)
		s.SetFSystem(fstest.MapFS{"home/alice/.hop/authorized_keys": &fstest.MapFile{Data: []byte(K[2].String() + "\n" + K[1].String() + "\n")}})
		for bit := 0; bit < 256; bit++ {
			r.Eval()
			k := K[1]
			k[bit/8] ^= 1 << (bit % 8)
			if ok, _, _ := login(s, false, "alice", k); ok {
				r.Violation(fmt.Sprintf("file:near-miss-key:byte%d", bit/8), fmt.Sprintf("a key differing from the listed key only in bit %d of byte %d was granted access", bit%8, bit/8), bit)
			}
		}
		if ok, _, _ := login(s, false, "alice", K[1]); !ok {
			r.Violation("file:liveness", "the listed key itself is refused on a clean file", nil)
		}
		r.Distinct("near-miss-keys")
	}
	// files that cannot be opened or read
	good := []byte(K[1].String() + "\n" + K[2].String() + "\n")
	type ff struct {
		name string
		fs   fs.FS
		k1ok bool // may K1 legitimately be granted?
	}
	var fcases []ff
	fcases = append(fcases, ff{"missing", fstest.MapFS{}, false}, ff{"open-error-permission", errFS{fs.ErrPermission}, false}, ff{"open-error-io", errFS{io.ErrUnexpectedEOF}, false},
		ff{"empty", fstest.MapFS{"home/alice/.hop/authorized_keys": &fstest.MapFile{Data: nil}}, false},
		ff{"directory-instead-of-file", fstest.MapFS{"home/alice/.hop/authorized_keys/x": &fstest.MapFile{Data: good}}, false})
	for n := 0; n <= len(good); n += 7 {
		fcases = append(fcases, ff{fmt.Sprintf("read-error-after-%d-bytes", n), shortFS{good, n}, n >= len(K[1].String())+1})
	}
	for _, c := range fcases {
		for _, en := range []bool{false, true} {
			s := newServer(en)
			s.VerifSetFS(c.fs)
			for _, user := range []string{"alice", "bob", "mallory"} {
				for ki := 1; ki <= 3; ki++ {
					r.Eval()
					var ok bool
					if pn := vk.Try(func() { ok, _, _ = login(s, en, user, K[ki]) }); pn != "" {
						r.Violation("file:panic:"+c.name, "login panics: "+pn, c.name)
						continue
					}
					if ok && !(user == "alice" && ki == 1 && c.k1ok) {
						r.Violation("file:unreadable:"+strings.Split(c.name, "-after-")[0], fmt.Sprintf("user %s granted with K%d although the authorized_keys file is %s (grants enabled=%v, no grant exists)", user, ki, c.name, en), c.name)
					}
				}
			}
			r.Distinct("unreadable:" + c.name)
		}
	}
}

// ---- grant histories ----

type gev struct {
	Kind string `json:"k"` // add | login
	U    int    `json:"u"` // 0 alice 1 bob
	Key  int    `json:"key"`
	Cmd  bool   `json:"cmd,omitempty"`
}

func (e gev) String() string {
	u := []string{"alice", "bob"}[e.U]
	if e.Kind == "add" {
		t := "shell"
		if e.Cmd {
			t = "cmd"
		}
		return fmt.Sprintf("add(%s,K%d,%s)", u, e.Key, t)
	}
	return fmt.Sprintf("login(%s,K%d)", u, e.Key)
}

func leafFor(k keys.DHPublicKey) certs.Certificate {
	c, err := certs.SelfSignLeaf(&certs.Identity{PublicKey: k})
	if err != nil {
		panic(err)
	}
	return *c
}

var leafs = [4]certs.Certificate{}

func grantsBFS(r *vk.Run, enable bool) {
	depth := 4
	if r.Thorough() {
		depth = 6
	}
	users := []string{"alice", "bob"}
	var alpha []gev
	for u := 0; u < 2; u++ {
		for k := 1; k <= 2; k++ {
			alpha = append(alpha, gev{"add", u, k, false}, gev{"add", u, k, true}, gev{"login", u, k, false})
		}
	}
	exec := func(path []gev) seqx.Step {
		r.Eval()
		s := newServer(enable)
		// alice's file lists K1: that login never touches grants
		s.SetFSystem(fstest.MapFS{"home/alice/.hop/authorized_keys": &fstest.MapFile{Data: []byte(K[1].String() + "\n")}})
		ref := map[string]int{}
		for i, e := range path {
			u, k := users[e.U], K[e.Key]
			id := u + fmt.Sprint(e.Key)
			if e.Kind == "add" {
				in := &authgrants.Intent{GrantType: authgrants.Shell, TargetUsername: u, DelegateCert: leafs[e.Key], StartTime: time.Unix(0, 0), ExpTime: time.Unix(1<<40, 0)}
				if e.Cmd {
					in.GrantType = authgrants.Command
					in.AssociatedData.CommandGrantData.Cmd = "x"
				}
				err := s.AddAuthGrant(in)
				if enable {
					if err != nil {
						return seqx.Step{Bad: fmt.Sprintf("step %d %v: AddAuthGrant failed although authgrants are enabled: %v", i, e, err)}
					}
					ref[id]++
				} else if err == nil {
					return seqx.Step{Bad: fmt.Sprintf("step %d %v: AddAuthGrant stored a grant although authgrants are disabled", i, e)}
				}
				continue
			}
			var ok, via bool
			var n int
			if pn := vk.Try(func() { ok, via, n = login(s, enable, u, k) }); pn != "" {
				return seqx.Step{Bad: fmt.Sprintf("step %d %v panics: %s", i, e, pn)}
			}
			isListed := u == "alice" && e.Key == 1
			switch {
			case ok && !via && !isListed:
				return seqx.Step{Bad: fmt.Sprintf("step %d %v: granted by key although the key is not in the user's file", i, e)}
			case ok && via && (!enable || ref[id] == 0):
				return seqx.Step{Bad: fmt.Sprintf("step %d %v: granted through a grant although no unconsumed grant for exactly this user and key exists (reference live grants: %v, enabled=%v)", i, e, ref, enable)}
			case ok && via && n != ref[id]:
				return seqx.Step{Bad: fmt.Sprintf("step %d %v: the session received %d authorized actions, reference holds %d grants for this user and key", i, e, n, ref[id])}
			case !ok && (isListed || (enable && ref[id] > 0)):
				// not a safety violation: reported as lost liveness (non-vacuity)
				return seqx.Step{Bad: fmt.Sprintf("step %d %v: refused although the key is listed / a live grant exists (reference %v)", i, e, ref)}
			}
			if ok && via {
				ref[id] = 0 // consumed
			}
		}
		var rk []string
		for k, v := range ref {
			if v > 0 {
				rk = append(rk, fmt.Sprintf("%s=%d", k, v))
			}
		}
		sort.Strings(rk)
		return seqx.Step{Key: s.VerifGrantState() + "#" + strings.Join(rk, ",")}
	}
	b := &seqx.BFS[gev]{MaxDepth: depth, Workers: r.Workers, Expired: r.Expired,
		Alphabet: func([]gev) []gev { return alpha },
		Exec:     exec,
		OnBad: func(path []gev, bad string) {
			var p []string
			for _, e := range path {
				p = append(p, e.String())
			}
			cls := "grant"
			if strings.Contains(bad, "refused although") {
				cls = "liveness"
			}
			r.Violation(fmt.Sprintf("grants:%s:enabled=%v:%s", cls, enable, strings.Join(p[max(0, len(p)-2):], ",")), bad+" | history: "+strings.Join(p, " "), path)
		}}
	st := b.Run()
	r.Graph(st.States, st.Transitions, st.Transitions)
	r.Set(fmt.Sprintf("grant_bfs_depth_enabled_%v", enable), st.MaxDepth)
}

func main() {
	r := vk.New("C05", "model_checking")
	if r.ReplayFile != "" && *e3Bin != "" {
		// schedules of the concurrent part are replayed by the build they were found on
		if b, err := os.ReadFile(r.ReplayFile); err == nil && bytes.Contains(b, []byte(`"choices"`)) {
			cmd := exec.Command(*e3Bin, "-replay", r.ReplayFile, "-tier", r.Tier)
			cmd.Stdout, cmd.Stderr = os.Stdout, os.Stderr
			if err := cmd.Run(); err != nil {
				if ee, ok := err.(*exec.ExitError); ok {
					os.Exit(ee.ExitCode())
				}
				os.Exit(2)
			}
			os.Exit(0)
		}
	}
	for i := 1; i <= 3; i++ {
		leafs[i] = leafFor(K[i])
	}
	r.SetRule("(1) authorized_keys contents: every sequence of <=3 (quick) / <=4 (thorough) lines over 18 line kinds (three valid keys incl. another user's, comment, empty, blanks, garbage, truncated base64, signing-key prefix, 31-byte key, trailing blanks, CR, and a valid key text that is not the whole entry: commented out with and without a blank, text before it, text after it, twice on one line, prefix in capitals) with and without final newline, plus missing file, open errors, empty file, directory in its place and read errors after every 7th byte, x users {alice, bob, unknown} x client keys (plus all 256 single-bit variants of a listed key), on a real HopServer with an in-memory file system; oracle (one-directional): granted => the key is, line by line, a well-formed entry of that user's file. (2) explicit-state BFS over histories of AddAuthGrant(user,key,type) / Login(user,key) (2 users x 2 keys x 2 grant types) with authgrants enabled and disabled, login composed as checkAuthorization composes AuthorizeKey and AuthorizeKeyAuthGrant; reference = multiset of live grants; states deduplicated on (grant map, transport key set, reference). distinct_nontrivial = distinct file line sequences + BFS states.")
	files(r)
	grantsBFS(r, true)
	grantsBFS(r, false)
	r.Assume("the composition of the two authorization steps mirrors hopSession.checkAuthorization (the end-to-end slice through a real session is part of the C07 dispatch check)")
	if *e3Bin != "" {
		r.RunChild("concurrent", *e3Bin)
	}
	r.Finish()
}
