//go:build verif

package userauth

// VerifInitMsg is what RequestAuthorization writes for username.
func VerifInitMsg(username string) []byte { return newUserAuthInitMsg(username).toBytes() }
