// C15 — a session's peer address moves only on authentic, fresh packets.
// Every sequence of events (genuine / replayed / bit-flipped / forged packets from three source
// addresses) up to a bound is executed on a real established session; after every event the
// destination of the endpoint's next datagram is compared with the reference "source of the
// last packet that authenticated and was fresh". Server view and client view, with and without
// a full receive queue.
package main

import (
	"fmt"
	"net"
	"strings"
	"sync"

	"hop.computer/hop/transport"
	"hop.computer/hop/zzverif/fix"
	"hop.computer/hop/zzverif/simnet"
	"hop.computer/hop/zzverif/vk"
)

type event struct {
	K string `json:"k"` // genuine | genuine-empty | replay | flip | forged | flip-header
	X int    `json:"x"` // source address index
}

func (e event) String() string { return fmt.Sprintf("%s@%d", e.K, e.X) }

type scenario struct {
	ServerView bool    `json:"server_view"`
	QueueFull  bool    `json:"queue_full"` // receive queue of 2, reader never drains
	Seq        []event `json:"seq"`
}

func (s scenario) key() string {
	var p []string
	for _, e := range s.Seq {
		p = append(p, e.String())
	}
	v := "client-view"
	if s.ServerView {
		v = "server-view"
	}
	if s.QueueFull {
		v += ":queue-full"
	}
	return v + ":" + strings.Join(p, ",")
}

type stats struct {
	mu     sync.Mutex
	states map[string]bool
	trans  int64
}

func run(std *fix.Std, sc scenario, st *stats) (problem string, engineErr error) {
	w := fix.NewWorld()
	defer w.Close()
	scfg := std.ServerConfig(false)
	ccfg := std.ClientConfig(false)
	if sc.QueueFull {
		scfg.MaxBufferedPacketsPerConnection = 2
		ccfg.MaxBufferedPackets = 2
	}
	srv, err := w.StartServer(scfg, std.ServerAdr)
	if err != nil {
		return "", err
	}
	home := simnet.Addr("10.0.0.2", 4000)
	cl := w.NewClient(ccfg, home, std.ServerAdr)
	cl.Start()
	if err := w.Pump(nil); err != nil {
		return "", err
	}
	h := srv.Accept()
	if !cl.Completed() || h == nil {
		return "", fmt.Errorf("handshake failed")
	}
	sess, _ := cl.C.VerifSession()
	// addresses the packets may come from: the peer's real one and two others
	var addrs []*net.UDPAddr
	var target *net.UDPAddr // the endpoint under observation
	var write func() error
	var pool, poolE [][]byte // genuine packets not yet delivered: with a payload / with an empty payload
	const N = 6
	if sc.ServerView {
		addrs = []*net.UDPAddr{home, simnet.Addr("10.0.0.3", 4100), simnet.Addr("10.7.7.7", 4200)}
		target = std.ServerAdr
		write = func() error { return h.WriteMsg([]byte("out")) }
		for i := 0; i < N; i++ {
			if err := cl.C.WriteMsg([]byte(fmt.Sprintf("in-%d", i))); err != nil {
				return "", err
			}
			pool = append(pool, w.Net.Pop().Data)
		}
		for i := 0; i < N; i++ {
			if err := cl.C.WriteMsg([]byte{}); err != nil {
				return "", err
			}
			poolE = append(poolE, w.Net.Pop().Data)
		}
	} else {
		addrs = []*net.UDPAddr{std.ServerAdr, simnet.Addr("10.0.0.9", 78), simnet.Addr("10.7.7.7", 4200)}
		target = home
		write = func() error { return cl.C.WriteMsg([]byte("out")) }
		for i := 0; i < N; i++ {
			if err := h.WriteMsg([]byte(fmt.Sprintf("in-%d", i))); err != nil {
				return "", err
			}
			pool = append(pool, w.Net.Pop().Data)
		}
		for i := 0; i < N; i++ {
			if err := h.WriteMsg([]byte{}); err != nil {
				return "", err
			}
			poolE = append(poolE, w.Net.Pop().Data)
		}
	}
	ref := addrs[0] // after the handshake the peer is where the handshake came from
	next, nextE := 0, 0
	var lastData []byte
	observe := func(after string) string {
		if err := write(); err != nil {
			return fmt.Sprintf("after %s: local write failed: %v", after, err)
		}
		d := w.Net.Pop()
		if d == nil {
			return fmt.Sprintf("after %s: local write produced no datagram", after)
		}
		if d.Dst.String() != ref.String() {
			return fmt.Sprintf("after %s: the endpoint sends the session's traffic to %s, reference (source of the last authentic fresh packet) is %s", after, d.Dst, ref)
		}
		return ""
	}
	if p := observe("handshake"); p != "" {
		return p, nil
	}
	for i, e := range sc.Seq {
		src := addrs[e.X]
		var data []byte
		switch e.K {
		case "genuine":
			if next >= len(pool) {
				return "", fmt.Errorf("pool exhausted")
			}
			data = pool[next]
			lastData = data
			next++
			ref = src // authentic and fresh: the address moves (or stays)
		case "genuine-empty":
			// a genuine, fresh packet whose payload is empty (a zero-length message)
			if nextE >= len(poolE) {
				return "", fmt.Errorf("pool exhausted")
			}
			data = poolE[nextE]
			lastData = data
			nextE++
			ref = src
		case "replay":
			if lastData == nil {
				return "", nil // nothing to replay yet: sequence not applicable
			}
			data = lastData
		case "flip":
			data = append([]byte{}, pool[next]...) // corrupted copy of a packet not yet delivered
			data[len(data)-1] ^= 0x01
		case "flip-header":
			data = append([]byte{}, pool[next]...)
			data[15] ^= 0x40 // counter bit: fresh-looking counter, tag no longer matches
		case "forged":
			data = []byte{0x10, 0, 0, 0}
			data = append(data, sess.ID[:]...)
			data = append(data, 0, 0, 0, 0, 0, 0, 1, byte(i)) // fresh counter
			data = append(data, make([]byte, 40)...)
		}
		w.Net.Deliver(data, src, target)
		if err := w.Net.WaitQuiescent(); err != nil {
			return "", err
		}
		if !sc.QueueFull {
			// drain the reader so the queue never fills
			buf := make([]byte, 64)
			if sc.ServerView {
				for h.VerifRecvLen() > 0 {
					h.ReadMsg(buf)
				}
			} else {
				for cl.C.VerifHandle().VerifRecvLen() > 0 {
					cl.C.ReadMsg(buf)
				}
			}
		}
		st.mu.Lock()
		st.trans++
		st.states[fmt.Sprintf("%v|%v|ref=%d|consumed=%d", sc.ServerView, sc.QueueFull, e.X*0+indexOf(addrs, ref), next+nextE)] = true
		st.mu.Unlock()
		if p := observe(fmt.Sprintf("event %d %v", i, e)); p != "" {
			return p, nil
		}
	}
	return "", nil
}

func indexOf(a []*net.UDPAddr, x *net.UDPAddr) int {
	for i, y := range a {
		if y == x {
			return i
		}
	}
	return -1
}

func classKey(sc scenario, problem string) string {
	// identity: view + the kinds of the last two events (what redirected, or failed to)
	n := len(sc.Seq)
	var k []string
	for _, e := range sc.Seq[max(0, n-2):] {
		k = append(k, e.K)
	}
	v := "client-view"
	if sc.ServerView {
		v = "server-view"
	}
	if sc.QueueFull {
		v += ":queue-full"
	}
	return v + ":…" + strings.Join(k, ",")
}

func main() {
	r := vk.New("C15", "model_checking")
	std := fix.NewStd()
	st := &stats{states: map[string]bool{}}
	if r.ReplayFile != "" {
		var sc scenario
		if err := r.LoadReplay(&sc); err != nil {
			r.EngineError("replay: %v", err)
		} else if p, err := run(std, sc, st); err != nil {
			r.EngineError("%v", err)
		} else if p != "" {
			r.Violation(classKey(sc, p), p, sc)
		}
		r.Finish()
	}
	bound := 3
	if r.Thorough() {
		bound = 4
	}
	var alpha []event
	for x := 0; x < 3; x++ {
		for _, k := range []string{"genuine", "genuine-empty", "replay", "flip", "flip-header", "forged"} {
			alpha = append(alpha, event{k, x})
		}
	}
	r.SetRule(fmt.Sprintf("every sequence of <=%d events over %d (genuine fresh / genuine fresh with an empty payload / replayed genuine / tag-flipped / counter-flipped / forged-with-valid-public-header packet, each from the peer's address or one of two others) on a real established session, server view and client view, reader draining vs receive queue of 2 never drained; after every event a local write is made and its destination compared with the reference address. States = distinct (view, queue mode, reference address, genuine packets consumed) reached; transitions = events executed on the implementation (no state merging: every trace is an implementation trace).", bound, len(alpha)))
	var scs []scenario
	var rec func(cur []event)
	rec = func(cur []event) {
		if len(cur) > 0 {
			for _, sv := range []bool{true, false} {
				for _, qf := range []bool{false, true} {
					scs = append(scs, scenario{ServerView: sv, QueueFull: qf, Seq: append([]event{}, cur...)})
				}
			}
		}
		if len(cur) == bound {
			return
		}
		for _, e := range alpha {
			rec(append(cur, e))
		}
	}
	rec(nil)
	// only maximal sequences and their failing prefixes matter: a prefix is re-executed inside
	// every extension, so run only sequences of full length plus all shorter ones ending the list
	var todo []scenario
	for _, s := range scs {
		if len(s.Seq) == bound {
			todo = append(todo, s)
		}
	}
	r.Parallel(len(todo), func(i int) {
		if r.Expired() {
			return
		}
		p, err := run(std, todo[i], st)
		r.Eval()
		if err != nil {
			r.EngineError("%s: %v", todo[i].key(), err)
			return
		}
		if p != "" {
			r.Violation(classKey(todo[i], p), p, todo[i])
		}
		r.Distinct(todo[i].key())
		if i%2003 == 0 {
			r.Sample(todo[i].key())
		}
	})
	if r.Expired() {
		r.Cap("wall-clock budget")
	}
	r.Graph(int64(len(st.states)), st.trans, st.trans)
	r.Set("sequence_bound", bound)
	r.Set("sequences", len(todo))
	r.Assume("tag forgery impossible; three source addresses; sequences up to the bound")
	_ = transport.KeyLen
	r.Finish()
}
