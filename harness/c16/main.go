// C16 — tube and muxer shutdown always terminates and is clean. Scheduler-controlled
// exploration (E3) of two real muxers over an in-memory lossy link.
package main

import (
	"errors"
	"flag"
	"fmt"
	"github.com/sirupsen/logrus"
	"io"
	"os"
	"strings"
	"time"

	"hop.computer/hop/tubes"
	"hop.computer/hop/zzverif/tuberig"
	"hop.computer/hop/zzverif/vk"
	"hop.computer/hop/zzverif/vrt"
	"hop.computer/hop/zzverif/vsync"
	"hop.computer/hop/zzverif/vx"
)

var worker = flag.Bool("vx-worker", false, "internal")

// A program: per side a sequence of operations on the side's end of one reliable tube (opened by
// the client), plus loss pattern.
//
//	w  Write(1 byte)      W  Write(40000 bytes)   r  Read
//	c  Close              x  WaitForClose         s  Stop the side's muxer
type program struct {
	Client, Server   string // main thread of each side
	Client2, Server2 string // optional second thread (concurrent close / stop)
	Loss             string // none | fin | finack | data1 | lastack | after | dead
	Unrel            bool   // the tube under test is unreliable
}

func (p program) String() string {
	return fmt.Sprintf("C[%s|%s] S[%s|%s] loss=%s unrel=%v", p.Client, p.Client2, p.Server, p.Server2, p.Loss, p.Unrel)
}

func parseProgram(s string) program {
	var p program
	var c, sv string
	fmt.Sscanf(s, "C[%s S[%s loss=%s unrel=%t", &c, &sv, &p.Loss, &p.Unrel)
	c, sv = strings.TrimSuffix(c, "]"), strings.TrimSuffix(sv, "]")
	cs, ss := strings.SplitN(c, "|", 2), strings.SplitN(sv, "|", 2)
	p.Client, p.Client2, p.Server, p.Server2 = cs[0], cs[1], ss[0], ss[1]
	return p
}

const bound = 120 * time.Second    // "within a bounded time" in virtual time (tolerates the retransmission back-off after a lost packet)
const stopBound = 10 * time.Second // Muxer.Stop: graceful close + forced close after muxerTimeout

func isFIN(b []byte) bool { return len(b) >= 2 && b[1]&(1<<4) != 0 && b[1]&3 == 0 }

// isData: a frame of an established tube that carries payload and is not a FIN.
func isData(b []byte) bool {
	return len(b) > 12 && b[1]&3 == 0 && b[1]&(1<<4) == 0 && (int(b[2])<<8|int(b[3])) > 0
}

// lossFilter implements the loss patterns on one direction.
func lossFilter(p program, dir string, deadAfter *bool, clientFinDelivered *bool) tuberig.Filter {
	finSeen := 0
	dataSeen := 0
	return func(d string, n int, msg []byte) [][]byte {
		switch p.Loss {
		case "data1": // the first data frame of each direction is lost once: what follows it (e.g. the FIN) overtakes it
			if isData(msg) {
				dataSeen++
				if dataSeen == 1 {
					return [][]byte{}
				}
			}
		case "dead":
			return [][]byte{}
		case "after":
			if *deadAfter {
				return [][]byte{}
			}
		case "fin": // the first FIN of the client is lost
			if dir == "a" && isFIN(msg) {
				finSeen++
				if finSeen == 1 {
					return [][]byte{}
				}
			}
		case "lastack": // once the server has sent a FIN, nothing from the client arrives any more
			if dir == "b" && isFIN(msg) {
				*deadAfter = true
			}
			if dir == "a" && *deadAfter {
				return [][]byte{}
			}
			if dir == "a" && isFIN(msg) {
				*clientFinDelivered = true
			}
		case "finack": // everything the server sends right after seeing the first FIN is lost once
			if dir == "b" && *deadAfter {
				*deadAfter = false
				return [][]byte{}
			}
		}
		if p.Loss == "finack" && dir == "a" && isFIN(msg) && finSeen == 0 {
			finSeen++
			*deadAfter = true
		}
		return nil
	}
}

func scenario(arg string) *vx.Scenario {
	p := parseProgram(arg)
	return &vx.Scenario{Name: "shutdown:" + arg, Cfg: vrt.Config{MaxSteps: 400000, MaxTime: 10 * time.Minute, Settle: 20 * time.Second}, Judge: func(r *vrt.Result) []string {
		ps := vx.DefaultJudge(r)
		// the environment stops both muxers at 140 virtual seconds at the latest: still running at
		// the 10-minute cap means a Stop (or something it waits for) never returned while a
		// ticker kept the clock moving, i.e. a deadlock that is not quiescent
		if r.Horizon != "" {
			ps = append(ps, "never returned: "+r.Horizon)
		}
		return ps
	}, Run: func() {
		m := tuberig.NewMuxers(0)
		flag := false
		clientFinDelivered := false
		m.CConn.SetFilter(lossFilter(p, "a", &flag, &clientFinDelivered))
		m.SConn.SetFilter(lossFilter(p, "b", &flag, &clientFinDelivered))
		var ct, st tubes.Tube
		var err error
		if p.Unrel {
			ct, err = m.Client.CreateUnreliableTube(7)
		} else {
			ct, err = m.Client.CreateReliableTube(7)
		}
		if err != nil {
			vrt.Fail("cannot create tube: %v", err)
			return
		}
		if p.Loss != "dead" {
			st, err = m.Server.Accept()
			if err != nil {
				vrt.Fail("accept failed: %v", err)
				return
			}
		}
		var wg vsync.WaitGroup
		running := 0 // program threads still at work (only touched by the one running thread)
		closedLocally := map[string]bool{}
		// virtual instants at which each side first asked for closure (Close or Stop) and at which
		// a Stop was first invoked anywhere
		closeAsked := map[string]time.Time{}
		stopAsked := map[string]time.Time{} // per side: its own muxer was told to stop
		noteClose := func(side string) {
			if _, ok := closeAsked[side]; !ok {
				closeAsked[side] = vrt.Now()
			}
		}
		// waitBound: WaitForClose is judged from the moment closure is inevitable: both sides asked
		// for it on a link that still delivers (or recovers), or some muxer was told to stop
		waitStart := func(side string, called time.Time) (time.Time, bool) {
			stopAsked := stopAsked[side]
			var from time.Time
			ok := false
			if c, okc := closeAsked["client"]; okc {
				s, oks := closeAsked["server"]
				recoverable := p.Loss == "none" || p.Loss == "fin" || p.Loss == "finack" || p.Loss == "data1"
				if p.Loss == "lastack" && oks {
					// the link dies towards the server once the server has sent its FIN. The client
					// still hears everything (its last-ack / closing timers bound its wait); the
					// server can only finish if the client's FIN got through before the link died
					// (then its last-ack or closing timer applies) - otherwise it sits in finWait1
					// on a dead link, which is the dead-network case and not judged. Roles are read
					// off the wire, not off the order of the Close calls: a Close issued by Stop
					// may reach the tube long after the call.
					recoverable = side == "client" || clientFinDelivered
				}
				if oks && recoverable {
					from, ok = c, true
					if s.After(from) {
						from = s
					}
				}
			}
			if !stopAsked.IsZero() && (!ok || stopAsked.Before(from)) {
				from, ok = stopAsked, true
			}
			if ok && called.After(from) {
				from = called
			}
			return from, ok
		}
		run := func(side, ops string, t tubes.Tube, mux *tubes.Muxer) {
			if ops == "" {
				return
			}
			wg.Add(1)
			running++
			vrt.Go(func() {
				defer wg.Done()
				defer func() { running-- }()
				for _, o := range ops {
					if t == nil && o != 's' && o != 'o' && o != 'O' && o != 'k' && o != 'p' {
						continue
					}
					t0 := vrt.Now()
					switch o {
					case 'w':
						_, err := t.Write([]byte{42})
						if err == nil && closedLocally[side] {
							vrt.Fail("%s: Write succeeded after the tube was closed locally", side)
						}
					case 'W':
						t.Write(make([]byte, 40000))
					case 'r':
						buf := make([]byte, 65536)
						t.Read(buf)
					case 'c':
						noteClose(side)
						t.Close()
						closedLocally[side] = true
					case 'x':
						t.WaitForClose()
						if from, ok := waitStart(side, t0); ok {
							if d := vrt.Now().Sub(from); d > bound {
								vrt.Fail("%s: WaitForClose returned %v of virtual time after closure had become inevitable", side, d)
							}
						}
					case 'o', 'O':
						// open a further tube from this side and keep it open (only a muxer Stop ends it)
						if o == 'o' {
							mux.CreateReliableTube(9)
						} else {
							mux.CreateUnreliableTube(9)
						}
					case 'p':
						vrt.Sleep(2 * time.Second)
					case 'k':
						// the transport connection under this side's muxer dies (its writes fail from now on)
						if side == "client" {
							m.CConn.Close()
						} else {
							m.SConn.Close()
						}
					case 's':
						noteClose(side)
						if _, ok := stopAsked[side]; !ok {
							stopAsked[side] = vrt.Now()
						}
						mux.Stop()
						if d := vrt.Since(t0); d > stopBound {
							vrt.Fail("%s: Muxer.Stop took %v of virtual time", side, d)
						}
					}
				}
			})
		}
		run("client", p.Client, ct, m.Client)
		run("client", p.Client2, ct, m.Client)
		run("server", p.Server, st, m.Server)
		run("server", p.Server2, st, m.Server)
		if p.Loss == "after" {
			vrt.Sleep(400 * time.Millisecond)
			flag = true
		}
		// the environment eventually stops both muxers (at the latest after 140 virtual seconds, at
		// the earliest once every program thread has returned); everything must then return
		for waited := 0; waited < 140 && running > 0; waited += 5 {
			vrt.Sleep(5 * time.Second)
		}
		if os.Getenv("VERIF_TRACE") != "" {
			fmt.Println("BLOCKED BEFORE THE FINAL STOP:\n" + vrt.DumpBlocked())
		}
		var sw vsync.WaitGroup
		for k, mx := range []*tubes.Muxer{m.Client, m.Server} {
			mx, side := mx, []string{"client", "server"}[k]
			sw.Add(1)
			vrt.Go(func() {
				defer sw.Done()
				t0 := vrt.Now()
				if _, ok := stopAsked[side]; !ok {
					stopAsked[side] = t0
				}
				mx.Stop()
				if d := vrt.Since(t0); d > stopBound {
					vrt.Fail("final Muxer.Stop took %v of virtual time", d)
				}
			})
		}
		sw.Wait()
		wg.Wait()
		// after close: reads return end-of-stream, writes fail
		for k, t := range []tubes.Tube{ct, st} {
			side := []string{"client", "server"}[k]
			if t == nil {
				continue
			}
			if _, err := t.Write([]byte{1}); err == nil {
				vrt.Fail("%s: Write succeeds on a tube of a stopped muxer", side)
			}
			n, err := t.Read(make([]byte, 70000))
			for k := 0; err == nil && k < 5; k++ {
				_ = n
				n, err = t.Read(make([]byte, 70000))
			}
			if err == nil {
				vrt.Fail("%s: Read keeps returning data without end-of-stream after the muxer stopped", side)
			} else if !errors.Is(err, io.EOF) && !errors.Is(err, os.ErrDeadlineExceeded) && !errors.Is(err, tubes.ErrBadTubeState) {
				vrt.Fail("%s: Read after stop returned %v", side, err)
			}
		}
		vrt.Outcome("done@%v", vrt.Since(time.Time{}) > 0)
	}}
}

func init() { vx.Registry["shutdown"] = scenario }

func programs(thorough bool) (all []program, core []program) {
	seqs := []string{"c", "cx", "wc", "wcx", "Wc", "rc", "rcx", "s", "cs", "ws", "x", "o"}
	losses := []string{"none", "fin", "finack", "data1", "lastack", "after", "dead"}
	for _, l := range losses {
		for _, c := range seqs {
			for _, sv := range seqs {
				if l == "dead" && sv != "s" && sv != "x" {
					continue // nothing ever reaches the server: only its Stop is interesting
				}
				all = append(all, program{Client: c, Server: sv, Loss: l})
			}
		}
		// second threads: concurrent close / stop against the main sequences
		for _, b := range [][4]string{{"c", "c", "c", ""}, {"c", "s", "c", ""}, {"wc", "s", "rc", "s"}, {"Wc", "c", "r", ""}, {"cx", "", "cx", "s"}, {"s", "s", "s", ""}, {"wcx", "s", "rcx", "c"}, {"W", "s", "r", "c"}, {"s", "", "x", "o"}, {"s", "", "", "O"}, {"cs", "", "r", "o"}, {"x", "o", "s", ""}} {
			all = append(all, program{Client: b[0], Client2: b[1], Server: b[2], Server2: b[3], Loss: l})
		}
		core = append(core,
			program{Client: "c", Server: "c", Loss: l}, program{Client: "c", Server: "s", Loss: l}, program{Client: "s", Server: "s", Loss: l},
			program{Client: "Wc", Client2: "s", Server: "r", Loss: l}, program{Client: "cx", Server: "cx", Loss: l}, program{Client: "c", Client2: "c", Server: "c", Loss: l},
			program{Client: "wcx", Server: "rcx", Loss: l}, program{Client: "c", Server: "rcx", Loss: l}, program{Client: "s", Server: "x", Server2: "o", Loss: l}, program{Client: "s", Server: "x", Server2: "O", Loss: l})
	}
	// the transport connection under one muxer dies (sender error path) with data in flight or being
	// retransmitted
	for _, l := range []string{"none", "dead", "after"} {
		for _, b := range [][4]string{{"wpk", "", "r", ""}, {"Wpk", "", "r", ""}, {"wpkc", "", "r", ""}, {"wk", "", "rc", ""}, {"k", "", "w", ""}, {"wpk", "s", "r", ""}, {"r", "", "wpk", ""}, {"wpkpps", "", "", ""}} {
			p := program{Client: b[0], Client2: b[1], Server: b[2], Server2: b[3], Loss: l}
			all = append(all, p)
			if b[0] == "wpk" || b[0] == "wpkc" {
				core = append(core, p)
			}
		}
	}
	for _, l := range []string{"none", "after", "dead"} {
		for _, b := range [][2]string{{"c", "c"}, {"wc", "rc"}, {"cx", "s"}, {"s", "c"}, {"c", "x"}} {
			all = append(all, program{Client: b[0], Server: b[1], Loss: l, Unrel: true})
		}
	}
	return
}

func classify(w string) string {
	for _, k := range []string{"deadlock", "never returned", "panic", "leaked", "WaitForClose returned", "Muxer.Stop took", "Write succeeded after", "Write succeeds on", "Read keeps", "Read after stop", "cannot create", "accept failed"} {
		if strings.Contains(w, k) {
			return strings.ReplaceAll(k, " ", "-")
		}
	}
	return "other"
}

func main() {
	flag.Parse()
	logrus.SetOutput(io.Discard)
	if *worker {
		vx.WorkerMain()
		return
	}
	r := vk.New("C16", "model_checking")
	if a := os.Getenv("VERIF_EXPLORE"); a != "" {
		sc := scenario(parseProgram(a).String())
		e := &vx.Explorer{Bounds: vx.Bounds{1, 1, 1, 1, 0}, Total: 1, MaxExec: 100000}
		last := time.Now()
		st := e.ExploreLocal(sc, func(st *vx.Stats, prefix []int, res *vrt.Result) {
			d := time.Since(last)
			last = time.Now()
			if d > 200*time.Millisecond || st.Executions%500 == 0 {
				dev := -1
				if len(prefix) > 0 {
					dev = len(prefix) - 1
				}
				fmt.Printf("exec %d took %v: deviation at point %d (alt %d) points=%d steps=%d vtime=%v horizon=%q deadlock=%v\n", st.Executions, d, dev, func() int {
					if len(prefix) > 0 {
						return prefix[len(prefix)-1]
					}
					return 0
				}(), len(res.Points), res.Steps, res.EndTime, res.Horizon, res.Deadlock != "")
			}
		})
		fmt.Printf("explored %d executions, problems=%d\n", st.Executions, len(st.Problems))
		r.Finish()
	}
	if a := os.Getenv("VERIF_PROG"); a != "" {
		sc := scenario(parseProgram(a).String())
		sc.Cfg.Trace = os.Getenv("VERIF_TRACE") != ""
		res := vrt.Run(sc.Cfg, nil, sc.Run)
		fmt.Printf("program %s: points=%d steps=%d threads=%d vtime=%v deadlock=%q panics=%v failures=%v leaked=%v horizon=%q\n", a, len(res.Points), res.Steps, res.Threads, res.EndTime, res.Deadlock, res.Panics, res.Failures, res.Leaked, res.Horizon)
		for _, l := range res.Log {
			fmt.Println("  ", l)
		}
		r.Finish()
	}
	if r.ReplayFile != "" {
		var c struct {
			Arg     string `json:"arg"`
			Choices []int  `json:"choices"`
		}
		if err := r.LoadReplay(&c); err != nil {
			r.EngineError("replay: %v", err)
			r.Finish()
		}
		sc := scenario(c.Arg)
		sc.Cfg.Trace = os.Getenv("VERIF_TRACE") != ""
		ps, stable, res := vx.Replay(sc, c.Choices)
		for _, l := range res.Log {
			fmt.Println("  ", l)
		}
		fmt.Println("stable:", stable, "virtual end:", res.EndTime)
		for i, pt := range res.Points {
			if pt.Chosen != 0 {
				fmt.Printf("DEVIATION at point %d: kind=%d preempt=%v chose %d of %d: %s\n", i, pt.Kind, pt.Preempt, pt.Chosen, pt.N, pt.Label)
			}
		}
		for _, p := range ps {
			r.Violation("replayed:"+classify(p), p, c)
		}
		r.Finish()
	}
	all, core := programs(r.Thorough())
	type phase struct {
		name   string
		progs  []program
		bounds vx.Bounds
		total  int
		window int
	}
	var phases []phase
	if r.Quick() {
		phases = []phase{{"all programs, no deviation", all, vx.Bounds{}, 0, 0}, {"core programs, one deviation (any kind) among the first 2500 choice points", core, vx.Bounds{1, 1, 1, 1, 0}, 1, 2500}}
	} else {
		// the deeper phase first (that is where the thorough tier found its defects); the soft budget
		// then cuts the broad phase, which covers all programs as far as the budget goes
		phases = []phase{{"core programs, two deviations (any kinds) among the first 600 choice points", core, vx.Bounds{2, 2, 2, 1, 0}, 2, 600}, {"all programs, one deviation (any kind)", all, vx.Bounds{1, 1, 1, 1, 0}, 1, 0}}
	}
	r.SetRule("two real tube muxers (rewritten at check time for the deterministic scheduler + virtual clock) over an in-memory link; one tube opened by the client; per side a main thread with a sequence of <=3 operations from {Write 1 byte, Write 40000 bytes, Read, Close, WaitForClose, Stop, open a further reliable / unreliable tube, pause 2 s, kill the muxer's transport connection (its writes fail from then on)} (<=6 for the kill programs) and an optional second thread issuing a concurrent Close or Stop; loss patterns {none, first FIN lost, reply to the first FIN lost, first data frame of each direction lost once (the FIN overtakes it), everything from the client lost once the server has sent its FIN (lost last ACK), everything lost after 400 ms, dead network from the start}; the environment stops both muxers once all program threads returned, at the latest at virtual time 140 s. Every program is executed under every schedule within the phase's deviation bounds (iterative bounding; executions run to completion). Oracles: no deadlock, nothing still running at 10 virtual minutes, no panic in any thread (e.g. send on closed channel), every Close returns, Stop returns within 10 virtual seconds; WaitForClose returns within 120 virtual seconds of closure having become inevitable (both ends asked for it on a link that recovers, or the local muxer was told to stop), no thread alive 20 virtual seconds after both muxers stopped, after local close Write fails and Read ends with end-of-stream. states = distinct schedules; transitions = choice points met.")
	var execs, points int64
	traces := 0
	for _, ph := range phases {
		e := &vx.Explorer{Bounds: ph.bounds, Total: ph.total, Window: ph.window, MaxExec: 3000000, Deadline: r.Deadline}
		var phExec int64
		for i, p := range ph.progs {
			if r.Expired() {
				r.Cap(fmt.Sprintf("budget expired in phase %q after %d of %d programs", ph.name, i, len(ph.progs)))
				break
			}
			st := e.Explore("shutdown", p.String(), r.Workers)
			execs += st.Executions
			phExec += st.Executions
			points += st.Points
			traces += st.NTraces
			if st.Capped {
				r.Cap("execution cap / budget hit for program " + p.String() + " in phase " + ph.name)
			}
			if st.Horizons > 0 {
				r.AddInt("executions_hitting_horizon", st.Horizons)
			}
			r.Distinct(p.String())
			for _, pr := range st.Problems {
				if strings.HasPrefix(pr.What, "ENGINE:") {
					r.EngineError("%s: %s", p, pr.What)
					continue
				}
				ps, stable, _ := vx.Replay(scenario(p.String()), pr.Choices)
				if !stable || len(ps) == 0 {
					r.EngineError("violation did not reproduce deterministically for %s: %s", p, pr.What)
					continue
				}
				r.Violation("shutdown:"+classify(pr.What)+":loss="+p.Loss, fmt.Sprintf("%s | program: %s | bounds %v | schedule: %d choices", pr.What, p, ph.bounds, len(pr.Choices)), map[string]any{"arg": p.String(), "choices": pr.Choices})
			}
			if os.Getenv("VERIF_VERBOSE") != "" {
				fmt.Printf("phase %q prog %s exec=%d maxpoints=%d problems=%d\n", ph.name, p, st.Executions, st.MaxPoints, len(st.Problems))
			}
		}
		r.SampleForce(map[string]any{"phase": ph.name, "programs": len(ph.progs), "bounds": ph.bounds.String(), "total_deviations": ph.total, "deviation_window": ph.window, "executions": phExec})
	}
	r.EvalN(execs)
	r.Graph(int64(traces), points, execs)
	r.Set("programs", len(all))
	r.Set("core_programs", len(core))
	r.Assume("sequentially consistent interleavings at synchronisation points; virtual time advances only when no thread is runnable or as a counted early-timer deviation; the in-memory link is instantaneous")
	r.Finish()
}
