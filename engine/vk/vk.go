// Package vk is the plumbing shared by every check: flags, evidence, violations, known
// findings, replay files, exit codes. It is mapped into the hop module by the driver's overlay
// as hop.computer/hop/zzverif/vk.
package vk

import (
	"bufio"
	"encoding/json"
	"flag"
	"fmt"
	"github.com/sirupsen/logrus"
	"io"
	"os"
	"os/exec"
	"path/filepath"
	"regexp"
	"runtime"
	"sort"
	"strings"
	"sync"
	"sync/atomic"
	"time"
)

// Violation is one failing case.
type Violation struct {
	Key  string `json:"key"`  // stable identity of the failing input / call site / history
	What string `json:"what"` // human explanation
	Case any    `json:"case"` // replayable description (op list, choice list, input)
}

type finding struct {
	Status   string `json:"status"`
	Property string `json:"property"`
	Key      string `json:"key"`
	What     string `json:"what"`
	Commit   string `json:"commit,omitempty"`
}

// Run collects what a check did.
type Run struct {
	ID    string
	Level string
	Tier  string
	Seed  int64

	EvidencePath string
	ReplayDir    string
	KnownPath    string
	ReplayFile   string
	Workers      int
	Deadline     time.Time // soft budget; checks consult Expired()

	start       time.Time
	evals       atomic.Int64
	mu          sync.Mutex
	distinct    map[string]struct{}
	samples     []any
	maxSamples  int
	extra       map[string]any
	assumptions []string
	rule        string
	exhaustive  bool
	capsHit     []string
	viols       map[string]Violation
	violCount   int
	states      int64
	transitions int64
	traces      int64
	engineErr   []string
	distinctAdd int // distinct cases reported by child processes
}

type childResult struct {
	Evals       int64          `json:"evals"`
	Distinct    int            `json:"distinct"`
	States      int64          `json:"states"`
	Transitions int64          `json:"transitions"`
	Traces      int64          `json:"traces"`
	Exhaustive  bool           `json:"exhaustive"`
	Caps        []string       `json:"caps"`
	EngineErr   []string       `json:"engine_errors"`
	Violations  []Violation    `json:"violations"`
	Extra       map[string]any `json:"extra"`
	Samples     []any          `json:"samples"`
}

// RunChild runs another harness binary (e.g. the same harness built with other tags) as a
// child with the same tier and merges what it did into this run. Keys of its violations are
// prefixed with label.
func (r *Run) RunChild(label, bin string, args ...string) {
	out := filepath.Join(os.Getenv("VERIF_TMP"), fmt.Sprintf("child-%s-%d.json", label, time.Now().UnixNano()))
	a := append([]string{"-tier", r.Tier, "-child-out", out, "-workers", fmt.Sprint(r.Workers)}, args...)
	cmd := exec.Command(bin, a...)
	cmd.Stderr = os.Stderr
	cmd.Stdout = os.Stderr
	if err := cmd.Run(); err != nil {
		r.EngineError("child %s failed: %v", label, err)
		return
	}
	b, err := os.ReadFile(out)
	if err != nil {
		r.EngineError("child %s wrote no result: %v", label, err)
		return
	}
	os.Remove(out)
	var cr childResult
	if err := json.Unmarshal(b, &cr); err != nil {
		r.EngineError("child %s result unreadable: %v", label, err)
		return
	}
	r.evals.Add(cr.Evals)
	r.mu.Lock()
	r.distinctAdd += cr.Distinct
	r.states += cr.States
	r.transitions += cr.Transitions
	r.traces += cr.Traces
	if !cr.Exhaustive {
		r.exhaustive = false
	}
	for _, c := range cr.Caps {
		r.capsHit = append(r.capsHit, label+": "+c)
	}
	for _, e := range cr.EngineErr {
		r.engineErr = append(r.engineErr, label+": "+e)
	}
	r.extra["child_"+label] = map[string]any{"evaluations": cr.Evals, "distinct": cr.Distinct, "extra": cr.Extra}
	for _, s := range cr.Samples {
		if len(r.samples) < r.maxSamples+4 {
			r.samples = append(r.samples, map[string]any{"build": label, "case": s})
		}
	}
	r.mu.Unlock()
	for _, v := range cr.Violations {
		r.Violation(label+":"+v.Key, "["+label+" build] "+v.What, v.Case)
	}
}

var (
	fTier     = flag.String("tier", "quick", "quick|thorough")
	fEvidence = flag.String("evidence", "", "evidence output path")
	fReplays  = flag.String("replays", "", "directory for replay artefacts")
	fKnown    = flag.String("known", "", "known findings jsonl")
	fReplay   = flag.String("replay", "", "replay one recorded case instead of exploring")
	fWorkers  = flag.Int("workers", 0, "parallel workers (default: NumCPU)")
	fChildOut = flag.String("child-out", "", "internal: run as a child of another harness and write a result summary here")
	fBudget   = flag.Duration("budget", 0, "soft wall-clock budget; when exceeded exploration stops with exhaustive=false")
)

// New parses flags and returns a Run. level is the EVIDENCE level enum.
func New(id, level string) *Run {
	if !flag.Parsed() {
		flag.Parse()
	}
	if os.Getenv("VERIF_LOG") == "" {
		logrus.SetOutput(io.Discard)
		logrus.SetLevel(logrus.PanicLevel)
	}
	r := &Run{ID: id, Level: level, Tier: *fTier, EvidencePath: *fEvidence, ReplayDir: *fReplays,
		KnownPath: *fKnown, ReplayFile: *fReplay, Workers: *fWorkers, start: time.Now(),
		distinct: map[string]struct{}{}, extra: map[string]any{}, viols: map[string]Violation{},
		maxSamples: 6, exhaustive: true, assumptions: []string{}}
	if t := os.Getenv("VERIF_TIER"); t != "" && *fTier == "" {
		r.Tier = t
	}
	if r.Tier != "quick" && r.Tier != "thorough" {
		fmt.Fprintf(os.Stderr, "bad tier %q\n", r.Tier)
		os.Exit(2)
	}
	fmt.Sscan(os.Getenv("VERIF_SEED"), &r.Seed)
	if r.Workers <= 0 {
		r.Workers = runtime.NumCPU()
	}
	if *fBudget > 0 {
		r.Deadline = r.start.Add(*fBudget)
	}
	return r
}

func (r *Run) Quick() bool    { return r.Tier == "quick" }
func (r *Run) Thorough() bool { return r.Tier == "thorough" }

// Expired reports whether the soft wall-clock budget is over. A check that stops because of it
// must call Cap so the evidence says exhaustive=false.
func (r *Run) Expired() bool { return !r.Deadline.IsZero() && time.Now().After(r.Deadline) }

// Eval counts one evaluated case.
func (r *Run) Eval()            { r.evals.Add(1) }
func (r *Run) EvalN(n int64)    { r.evals.Add(n) }
func (r *Run) Evals() int64     { return r.evals.Load() }
func (r *Run) SetRule(s string) { r.rule = s }

// Distinct records the canonical identity of a non-trivial case.
func (r *Run) Distinct(key string) {
	r.mu.Lock()
	r.distinct[key] = struct{}{}
	r.mu.Unlock()
}

// Sample keeps a few actual cases for the evidence file.
func (r *Run) Sample(s any) {
	r.mu.Lock()
	if len(r.samples) < r.maxSamples {
		r.samples = append(r.samples, s)
	}
	r.mu.Unlock()
}

// SampleForce appends a sample regardless of the cap (used for per-phase summaries).
func (r *Run) SampleForce(s any) {
	r.mu.Lock()
	r.samples = append(r.samples, s)
	r.mu.Unlock()
}

func (r *Run) Set(k string, v any) {
	r.mu.Lock()
	r.extra[k] = v
	r.mu.Unlock()
}

// AddInt adds to an integer extra key.
func (r *Run) AddInt(k string, n int64) {
	r.mu.Lock()
	cur, _ := r.extra[k].(int64)
	r.extra[k] = cur + n
	r.mu.Unlock()
}

func (r *Run) Assume(s string) { r.assumptions = append(r.assumptions, s) }

// Cap records that a bound/cap was hit so the run is not exhaustive.
func (r *Run) Cap(what string) {
	r.mu.Lock()
	r.exhaustive = false
	r.capsHit = append(r.capsHit, what)
	r.mu.Unlock()
}

// Graph adds explicit-state statistics.
func (r *Run) Graph(states, transitions, tracesValidated int64) {
	r.mu.Lock()
	r.states += states
	r.transitions += transitions
	r.traces += tracesValidated
	r.mu.Unlock()
}

// EngineError records a failure of the machinery itself (exit 2, never a VIOLATION).
func (r *Run) EngineError(format string, a ...any) {
	r.mu.Lock()
	r.engineErr = append(r.engineErr, fmt.Sprintf(format, a...))
	r.mu.Unlock()
}

// Violation records a failing case (deduplicated on key).
func (r *Run) Violation(key, what string, c any) {
	r.mu.Lock()
	defer r.mu.Unlock()
	r.violCount++
	if _, ok := r.viols[key]; ok {
		return
	}
	if len(r.viols) >= 400 {
		return
	}
	r.viols[key] = Violation{Key: key, What: what, Case: c}
}

func (r *Run) NumViolations() int {
	r.mu.Lock()
	defer r.mu.Unlock()
	return len(r.viols)
}

func (r *Run) loadKnown() []finding {
	var out []finding
	if r.KnownPath == "" {
		return out
	}
	f, err := os.Open(r.KnownPath)
	if err != nil {
		return out
	}
	defer f.Close()
	sc := bufio.NewScanner(f)
	sc.Buffer(make([]byte, 1<<20), 1<<20)
	for sc.Scan() {
		line := strings.TrimSpace(sc.Text())
		if line == "" || strings.HasPrefix(line, "#") {
			continue
		}
		var fd finding
		if json.Unmarshal([]byte(line), &fd) == nil && fd.Property == r.ID && fd.Status == "finding" {
			out = append(out, fd)
		}
	}
	return out
}

var unsafeChars = regexp.MustCompile(`[^A-Za-z0-9_.=+-]+`)

func fileKey(k string) string {
	s := unsafeChars.ReplaceAllString(k, "_")
	if len(s) > 120 {
		s = s[:120]
	}
	return s
}

// Finish writes the evidence file, prints verdict lines and exits.
func (r *Run) Finish() {
	if *fChildOut != "" {
		cr := childResult{Evals: r.evals.Load(), Distinct: len(r.distinct), States: r.states, Transitions: r.transitions,
			Traces: r.traces, Exhaustive: r.exhaustive, Caps: r.capsHit, EngineErr: r.engineErr, Extra: r.extra, Samples: r.samples}
		for _, v := range r.viols {
			cr.Violations = append(cr.Violations, v)
		}
		b, _ := json.Marshal(cr)
		if err := os.WriteFile(*fChildOut, b, 0o644); err != nil {
			os.Exit(2)
		}
		os.Exit(0)
	}
	known := r.loadKnown()
	keys := make([]string, 0, len(r.viols))
	for k := range r.viols {
		keys = append(keys, k)
	}
	sort.Strings(keys)
	var unknown, matched []Violation
	for _, k := range keys {
		v := r.viols[k]
		isKnown := false
		for _, f := range known {
			if f.Key == v.Key {
				isKnown = true
			}
		}
		if isKnown {
			matched = append(matched, v)
		} else {
			unknown = append(unknown, v)
		}
	}
	wall := time.Since(r.start).Seconds()
	cov := map[string]any{}
	for k, v := range r.extra {
		cov[k] = v
	}
	cov["evaluations"] = r.evals.Load()
	cov["distinct_nontrivial"] = len(r.distinct) + r.distinctAdd
	cov["rule"] = r.rule
	if len(r.samples) == 0 {
		r.samples = []any{}
	}
	cov["samples"] = r.samples
	cov["exhaustive"] = r.exhaustive && len(r.engineErr) == 0
	if len(r.capsHit) > 0 {
		cov["caps_hit"] = r.capsHit
	}
	if r.states > 0 {
		cov["states"] = r.states
		cov["transitions"] = r.transitions
		cov["traces_validated_against_impl"] = r.traces
	}
	if len(r.engineErr) > 0 {
		cov["engine_errors"] = r.engineErr
	}
	if len(matched) > 0 {
		var ks []string
		for _, v := range matched {
			ks = append(ks, v.Key)
		}
		cov["known_findings_reproduced"] = ks
	}
	ev := map[string]any{
		"property_id": r.ID, "tier": r.Tier, "seed": r.Seed, "level": r.Level,
		"coverage": cov, "assumptions": r.assumptions, "wall_s": wall,
		"violations": len(unknown),
	}
	if r.EvidencePath != "" && r.ReplayFile == "" {
		os.MkdirAll(filepath.Dir(r.EvidencePath), 0o755)
		b, _ := json.MarshalIndent(ev, "", " ")
		if err := os.WriteFile(r.EvidencePath, append(b, '\n'), 0o644); err != nil {
			fmt.Fprintf(os.Stderr, "cannot write evidence: %v\n", err)
			os.Exit(2)
		}
	}
	fmt.Printf("SUMMARY property=%s tier=%s evaluations=%d distinct=%d states=%d transitions=%d exhaustive=%v violations=%d known=%d wall=%.1fs\n",
		r.ID, r.Tier, r.evals.Load(), len(r.distinct)+r.distinctAdd, r.states, r.transitions, cov["exhaustive"], len(unknown), len(matched), wall)
	for _, v := range matched {
		fmt.Printf("KNOWN-FINDING: property=%s %s :: %s\n", r.ID, v.Key, oneLine(v.What))
	}
	for _, e := range r.engineErr {
		fmt.Printf("ENGINE-ERROR property=%s %s\n", r.ID, oneLine(e))
	}
	if len(unknown) > 0 {
		for i, v := range unknown {
			path := ""
			if r.ReplayDir != "" {
				os.MkdirAll(r.ReplayDir, 0o755)
				path = filepath.Join(r.ReplayDir, fileKey(v.Key)+".json")
				b, _ := json.MarshalIndent(map[string]any{"property": r.ID, "key": v.Key, "what": v.What, "case": v.Case}, "", " ")
				os.WriteFile(path, append(b, '\n'), 0o644)
			}
			if i < 25 {
				fmt.Printf("VIOLATION property=%s replay=%s key=%s :: %s\n", r.ID, path, v.Key, oneLine(v.What))
			}
		}
		if len(unknown) > 25 {
			fmt.Printf("(%d further distinct violations written to %s)\n", len(unknown)-25, r.ReplayDir)
		}
		os.Exit(1)
	}
	if len(r.engineErr) > 0 {
		os.Exit(2)
	}
	os.Exit(0)
}

func oneLine(s string) string {
	s = strings.ReplaceAll(s, "\n", " | ")
	if len(s) > 400 {
		s = s[:400] + "…"
	}
	return s
}

// LoadReplay reads the "case" member of a replay file into v.
func (r *Run) LoadReplay(v any) error {
	b, err := os.ReadFile(r.ReplayFile)
	if err != nil {
		return err
	}
	var w struct {
		Case json.RawMessage `json:"case"`
	}
	if err := json.Unmarshal(b, &w); err != nil {
		return err
	}
	return json.Unmarshal(w.Case, v)
}

// Parallel runs fn(i) for i in [0,n) on r.Workers goroutines.
func (r *Run) Parallel(n int, fn func(i int)) {
	var next atomic.Int64
	var wg sync.WaitGroup
	w := r.Workers
	if w > n {
		w = n
	}
	for k := 0; k < w; k++ {
		wg.Add(1)
		go func() {
			defer wg.Done()
			for {
				i := int(next.Add(1) - 1)
				if i >= n {
					return
				}
				fn(i)
			}
		}()
	}
	wg.Wait()
}

// Try calls fn and converts a panic into a string ("" = no panic).
func Try(fn func()) (panicked string) {
	defer func() {
		if e := recover(); e != nil {
			buf := make([]byte, 2048)
			n := runtime.Stack(buf, false)
			panicked = fmt.Sprintf("panic: %v @ %s", e, firstRepoFrame(string(buf[:n])))
		}
	}()
	fn()
	return ""
}

func firstRepoFrame(st string) string {
	lines := strings.Split(st, "\n")
	for _, l := range lines {
		l = strings.TrimSpace(l)
		if strings.HasPrefix(l, "/repo/") && !strings.Contains(l, "/zzverif/") {
			if i := strings.Index(l, " "); i > 0 {
				l = l[:i]
			}
			return l
		}
	}
	return "?"
}
