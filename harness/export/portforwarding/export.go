//go:build verif

package portforwarding

import (
	"io"
	"net"
)

func VerifReadPacket(r io.Reader) (net.Addr, byte, error) { return readPacket(r) }
func VerifToBytes(a net.Addr, fwdType int) []byte         { return toBytes(a, fwdType) }
