//go:build verif

package authkeys

import (
	"fmt"
	"sort"
	"strings"
)

// VerifDump lists the keys currently trusted (present and true).
func (s *SyncAuthKeySet) VerifDump() string {
	if s == nil {
		return "nil"
	}
	s.lock.Lock()
	defer s.lock.Unlock()
	var out []string
	for k, v := range s.keySet {
		out = append(out, fmt.Sprintf("%x:%v", k[:4], v))
	}
	sort.Strings(out)
	return strings.Join(out, ",")
}
