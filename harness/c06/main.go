// C06 — nothing is delegated without the principal approving that exact intent.
// Histories of intent requests on one delegate connection x approve/deny decisions x target
// behaviours x target set-up behaviours, on the real principal and target instances joined by
// in-memory conns with exact quiescence detection; a monitor checks forwarding, answer count
// and the meaning of a confirmation.
package main

import (
	"bytes"
	"errors"
	"fmt"
	"io"
	"net"
	"strings"
	"sync"
	"time"

	"hop.computer/hop/authgrants"
	"hop.computer/hop/certs"
	"hop.computer/hop/core"
	"hop.computer/hop/keys"
	"hop.computer/hop/zzverif/vk"
)

// ---- in-memory conns on one hub (one lock, one condition) ----

type hub struct {
	mu   sync.Mutex
	cond *sync.Cond
}

type end struct {
	h      *hub
	name   string
	buf    []byte
	closed bool // this end was closed locally
	peer   *end
	parked bool
	wrote  bytes.Buffer // everything written on this end
}

func (h *hub) pipe(a, b string) (*end, *end) {
	x, y := &end{h: h, name: a}, &end{h: h, name: b}
	x.peer, y.peer = y, x
	return x, y
}

func (e *end) Read(b []byte) (int, error) {
	e.h.mu.Lock()
	defer e.h.mu.Unlock()
	for len(e.buf) == 0 && !e.closed && !e.peer.closed {
		e.parked = true
		e.h.cond.Broadcast()
		e.h.cond.Wait()
	}
	e.parked = false
	if len(e.buf) == 0 {
		if e.closed {
			return 0, net.ErrClosed
		}
		return 0, io.EOF
	}
	n := copy(b, e.buf)
	e.buf = e.buf[n:]
	return n, nil
}

func (e *end) Write(b []byte) (int, error) {
	e.h.mu.Lock()
	defer e.h.mu.Unlock()
	if e.closed || e.peer.closed {
		return 0, errors.New("write on closed conn")
	}
	e.peer.buf = append(e.peer.buf, b...)
	e.wrote.Write(b)
	e.h.cond.Broadcast()
	return len(b), nil
}

func (e *end) Close() error {
	e.h.mu.Lock()
	e.closed = true
	e.h.cond.Broadcast()
	e.h.mu.Unlock()
	return nil
}

type addr string

func (a addr) Network() string                 { return "mem" }
func (a addr) String() string                  { return string(a) }
func (e *end) LocalAddr() net.Addr             { return addr(e.name) }
func (e *end) RemoteAddr() net.Addr            { return addr(e.peer.name) }
func (e *end) SetDeadline(time.Time) error     { return nil }
func (e *end) SetReadDeadline(time.Time) error { return nil }
func (e *end) SetWriteDeadline(time.Time) error {
	return nil
}

// ---- scenario ----

type request struct {
	Intent  int  `json:"intent"`  // 0..4 = A..E
	Approve bool `json:"approve"` // principal's decision for this request
	Target  int  `json:"target"`  // target behaviour: 0 confirm, 1 deny at policy, 2 fail to store, 3 drop connection
}

type history struct {
	Setup int       `json:"setup"` // 0 ok, 1 callback invoked then set-up fails, 2 set-up fails before the callback
	Reqs  []request `json:"reqs"`
}

var intentNames = []string{"A:cmd-x@T1", "B:shell@T1", "C:cmd-y@T1-user2", "D:cmd-x@T2", "E:unknown-type@T1", "F:local-pf@T1", "G:remote-pf@T1"}
var targetNames = []string{"confirm", "deny", "fail-store", "drop"}

func (h history) String() string {
	s := []string{fmt.Sprintf("setup=%d", h.Setup)}
	for _, r := range h.Reqs {
		d := "deny"
		if r.Approve {
			d = "approve"
		}
		s = append(s, fmt.Sprintf("%s/%s/%s", intentNames[r.Intent], d, targetNames[r.Target]))
	}
	return strings.Join(s, " ")
}

var delegateCert certs.Certificate
var targetCerts [2]*certs.Certificate

func mkIntent(k int) authgrants.Intent {
	i := authgrants.Intent{GrantType: authgrants.Command, TargetPort: 77, StartTime: time.Unix(1000, 0), ExpTime: time.Unix(1<<40, 0),
		TargetSNI: certs.DNSName("t1.example"), TargetUsername: "user1", DelegateCert: delegateCert,
		AssociatedData: authgrants.GrantData{CommandGrantData: authgrants.CommandGrantData{Cmd: "x"}}}
	switch k {
	case 1:
		i.GrantType = authgrants.Shell
		i.AssociatedData.CommandGrantData.Cmd = ""
	case 2:
		i.AssociatedData.CommandGrantData.Cmd = "y"
		i.TargetUsername = "user2"
	case 3:
		i.TargetSNI = certs.DNSName("t2.example")
	case 4:
		i.GrantType = authgrants.GrantType(9)
		i.AssociatedData.CommandGrantData.Cmd = ""
	case 5:
		i.GrantType = authgrants.LocalPF
		i.AssociatedData.CommandGrantData.Cmd = ""
	case 6:
		i.GrantType = authgrants.RemotePF
		i.AssociatedData.CommandGrantData.Cmd = ""
	}
	return i
}

func encIntent(i authgrants.Intent) string {
	var b bytes.Buffer
	i.WriteTo(&b)
	return b.String()
}

type monitor struct {
	mu        sync.Mutex
	cur       int              // index of the request being processed
	approved  map[int][]string // request -> encodings approved by the callback during it
	denied    map[int]bool     // callback returned an error during request k
	stored    map[int][]string // request -> encodings the target stored successfully
	callbacks int
}

// run executes one history; returns problems.
func run(hst history) (problems []string, engineErr error) {
	h := &hub{}
	h.cond = sync.NewCond(&h.mu)
	dDelegate, dPrincipal := h.pipe("delegate", "principal")
	m := &monitor{approved: map[int][]string{}, denied: map[int]bool{}, stored: map[int][]string{}}
	var taps []*end     // principal-side ends of target conns (what the principal wrote to targets)
	var tapReq [][2]int // for each target conn: request index at creation
	_ = tapReq
	checkIntent := func(i authgrants.Intent, c *certs.Certificate) error {
		m.mu.Lock()
		defer m.mu.Unlock()
		m.callbacks++
		k := m.cur
		if k < len(hst.Reqs) && hst.Reqs[k].Approve {
			m.approved[k] = append(m.approved[k], encIntent(i))
			return nil
		}
		m.denied[k] = true
		return fmt.Errorf("principal says no")
	}
	setups := 0
	setUp := func(u core.URL, verify authgrants.AdditionalVerifyCallback) (net.Conn, error) {
		setups++
		first := setups == 1
		if first && hst.Setup == 2 {
			return nil, fmt.Errorf("target unreachable")
		}
		ti := 0
		if strings.HasPrefix(u.Host, "t2") {
			ti = 1
		}
		// mirrors hopclient.setupTargetClient: the handshake's additional verify callback is the
		// approval; a refused callback fails the handshake
		if err := verify(targetCerts[ti]); err != nil {
			return nil, fmt.Errorf("handshake failed: %w", err)
		}
		if first && hst.Setup == 1 {
			return nil, fmt.Errorf("set-up failed after the handshake")
		}
		pEnd, tEnd := h.pipe("principal->target", "target")
		taps = append(taps, pEnd)
		go authgrants.StartTargetInstance(tEnd, nil, func(i authgrants.Intent, _ *certs.Certificate) error {
			m.mu.Lock()
			k := m.cur
			m.mu.Unlock()
			switch hst.Reqs[k].Target {
			case 1:
				return fmt.Errorf("target policy refuses")
			case 3:
				tEnd.Close()
				return fmt.Errorf("connection dropped")
			}
			return nil
		}, func(i *authgrants.Intent) error {
			m.mu.Lock()
			defer m.mu.Unlock()
			k := m.cur
			if hst.Reqs[k].Target == 2 {
				return fmt.Errorf("cannot store grant")
			}
			m.stored[k] = append(m.stored[k], encIntent(*i))
			return nil
		})
		return pEnd, nil
	}
	done := make(chan struct{})
	go func() {
		authgrants.StartPrincipalInstance(dPrincipal, checkIntent, setUp)
		h.mu.Lock()
		dPrincipal.closed = true // the principal left: nobody reads requests any more
		h.cond.Broadcast()
		h.mu.Unlock()
		close(done)
	}()
	waitQuiet := func() error {
		deadline := time.Now().Add(20 * time.Second)
		t := time.AfterFunc(21*time.Second, func() { h.mu.Lock(); h.cond.Broadcast(); h.mu.Unlock() })
		defer t.Stop()
		h.mu.Lock()
		defer h.mu.Unlock()
		for !(dPrincipal.closed || (dPrincipal.parked && len(dPrincipal.buf) == 0)) {
			if time.Now().After(deadline) {
				return fmt.Errorf("principal did not come to rest")
			}
			h.cond.Wait()
		}
		return nil
	}
	if err := waitQuiet(); err != nil {
		return nil, err
	}
	forwardedSoFar := make([]int, 0)
	for k, rq := range hst.Reqs {
		m.mu.Lock()
		m.cur = k
		m.mu.Unlock()
		h.mu.Lock()
		gone := dPrincipal.closed
		answersBefore := len(dDelegate.buf)
		h.mu.Unlock()
		if gone {
			break // the principal ended the conversation (allowed after an error)
		}
		in := mkIntent(rq.Intent)
		if err := authgrants.WriteIntentRequest(dDelegate, in); err != nil && rq.Intent < 5 {
			break
		}
		// (port-forwarding intents: the encoder reports "unimplemented" for their grant data after
		// the complete message is on the wire; a delegate that ignores the error has sent a request)
		if err := waitQuiet(); err != nil {
			return problems, err
		}
		// (2) exactly one answer
		h.mu.Lock()
		ans := append([]byte{}, dDelegate.buf[answersBefore:]...)
		dDelegate.buf = dDelegate.buf[:answersBefore]
		h.mu.Unlock()
		rd := bytes.NewReader(ans)
		var msgs []authgrants.AgMessage
		for rd.Len() > 0 {
			var a authgrants.AgMessage
			if _, err := a.ReadFrom(rd); err != nil {
				problems = append(problems, fmt.Sprintf("request %d: the delegate received bytes that do not parse as an answer: %v", k, err))
				break
			}
			msgs = append(msgs, a)
		}
		h.mu.Lock()
		goneNow := dPrincipal.closed
		h.mu.Unlock()
		// A port-forwarding intent is a message the sender's own encoder reports as failed
		// ("unimplemented"): the delegate API never sent a request as far as it can tell. A
		// principal that cannot read it and ends the conversation without an answer is within
		// the property (no request was made); any answer it does give still counts below.
		if rq.Intent >= 5 && len(msgs) == 0 && goneNow {
			break
		}
		if len(msgs) != 1 {
			problems = append(problems, fmt.Sprintf("request %d (%s): the delegate received %d answers, exactly one expected", k, intentNames[rq.Intent], len(msgs)))
		}
		// (1) everything forwarded during this request was approved for this request, verbatim
		var fwd []string
		for ti, tp := range taps {
			for len(forwardedSoFar) <= ti {
				forwardedSoFar = append(forwardedSoFar, 0)
			}
			h.mu.Lock()
			all := append([]byte{}, tp.wrote.Bytes()...)
			h.mu.Unlock()
			rd := bytes.NewReader(all[forwardedSoFar[ti]:])
			for rd.Len() > 0 {
				var a authgrants.AgMessage
				if _, err := a.ReadFrom(rd); err != nil {
					problems = append(problems, fmt.Sprintf("request %d: bytes forwarded to the target do not parse: %v", k, err))
					break
				}
				if a.MsgType != authgrants.IntentCommunication {
					problems = append(problems, fmt.Sprintf("request %d: principal sent message type %d to the target", k, a.MsgType))
					continue
				}
				fwd = append(fwd, encIntent(a.Data.Intent))
			}
			forwardedSoFar[ti] = len(all)
		}
		m.mu.Lock()
		for _, f := range fwd {
			ok := false
			for _, a := range m.approved[k] {
				if a == f {
					ok = true
				}
			}
			switch {
			case ok:
			case m.denied[k] || !rq.Approve:
				problems = append(problems, fmt.Sprintf("request %d (%s): an intent was forwarded to the target although the approval callback refused it", k, intentNames[rq.Intent]))
			case len(m.approved[k]) == 0:
				problems = append(problems, fmt.Sprintf("request %d (%s): an intent was forwarded to the target without the approval callback having been asked about it for this request", k, intentNames[rq.Intent]))
			default:
				problems = append(problems, fmt.Sprintf("request %d (%s): the intent forwarded to the target differs from the one that was approved", k, intentNames[rq.Intent]))
			}
			if f != encIntent(in) {
				problems = append(problems, fmt.Sprintf("request %d (%s): the forwarded intent is not the requested one", k, intentNames[rq.Intent]))
			}
		}
		// (3) a confirmation means: the target stored exactly this intent
		if len(msgs) >= 1 && msgs[0].MsgType == authgrants.IntentConfirmation {
			ok := false
			for _, s := range m.stored[k] {
				if s == encIntent(in) {
					ok = true
				}
			}
			if !ok {
				problems = append(problems, fmt.Sprintf("request %d (%s): the delegate received a confirmation although the target did not accept and store this grant", k, intentNames[rq.Intent]))
			}
		}
		m.mu.Unlock()
	}
	dDelegate.Close()
	select {
	case <-done:
	case <-time.After(10 * time.Second):
		return problems, fmt.Errorf("principal did not exit after the delegate closed")
	}
	for _, tp := range taps {
		tp.Close()
	}
	return problems, nil
}

func classify(p string) string {
	switch {
	case strings.Contains(p, "answers, exactly one"):
		n := "many"
		if strings.Contains(p, "received 0 answers") {
			n = "none"
		}
		return "answers:" + n
	case strings.Contains(p, "refused it"):
		return "forwarded-refused"
	case strings.Contains(p, "without the approval"):
		return "forwarded-unasked"
	case strings.Contains(p, "differs from"):
		return "forwarded-altered"
	case strings.Contains(p, "not the requested"):
		return "forwarded-other"
	case strings.Contains(p, "confirmation although"):
		return "false-confirmation"
	}
	return "other"
}

func main() {
	r := vk.New("C06", "model_checking")
	k := keys.GenerateNewX25519KeyPair()
	c, _ := certs.SelfSignLeaf(&certs.Identity{PublicKey: k.Public, Names: []certs.Name{certs.RawStringName("delegate")}})
	b, _ := c.Marshal()
	delegateCert.ReadFrom(bytes.NewReader(b))
	for i := range targetCerts {
		tk := keys.GenerateNewX25519KeyPair()
		targetCerts[i], _ = certs.SelfSignLeaf(&certs.Identity{PublicKey: tk.Public, Names: []certs.Name{certs.DNSName(fmt.Sprintf("t%d.example", i+1))}})
	}
	if r.ReplayFile != "" {
		var h history
		if err := r.LoadReplay(&h); err != nil {
			r.EngineError("replay: %v", err)
		} else {
			ps, err := run(h)
			if err != nil {
				r.EngineError("%v", err)
			}
			for _, p := range ps {
				r.Violation("replayed:"+classify(p), p, h)
			}
		}
		r.Finish()
	}
	depth := 3
	intentsAt := func(d int) []int { return []int{0, 1, 2, 3, 4, 5} }
	if r.Thorough() {
		depth = 4
		intentsAt = func(d int) []int {
			if d == 3 {
				return []int{0, 2, 3}
			}
			return []int{0, 1, 2, 3, 4, 5, 6}
		}
	}
	r.SetRule(fmt.Sprintf("all histories of <=%d intent requests on one delegate connection; per request: intent in %v x principal decision {approve, deny} x target behaviour %v; first target set-up in {ok, callback then failure, failure before callback}; executed on the real StartPrincipalInstance / StartTargetInstance over in-memory conns (quiescence = principal parked reading an empty delegate conn). Monitor after every request: everything written to a target conn was approved by the callback during that request and is byte-identical to the approved and to the requested intent; exactly one answer reached the delegate; a confirmation implies the target's store callback accepted exactly this intent. States = distinct (target connected?, which target, principal alive?, request index) reached; transitions = requests executed.", depth, intentNames, targetNames))
	var hs []history
	var rec func(cur []request)
	rec = func(cur []request) {
		if len(cur) == depth {
			for s := 0; s < 3; s++ {
				hs = append(hs, history{Setup: s, Reqs: append([]request{}, cur...)})
			}
			return
		}
		for _, in := range intentsAt(len(cur)) {
			for _, ap := range []bool{true, false} {
				for tb := 0; tb < 4; tb++ {
					rec(append(cur, request{in, ap, tb}))
				}
			}
		}
	}
	rec(nil)
	var trans int64
	var tmu sync.Mutex
	states := map[string]bool{}
	r.Parallel(len(hs), func(i int) {
		if r.Expired() {
			return
		}
		ps, err := run(hs[i])
		r.Eval()
		if err != nil {
			r.EngineError("%s: %v", hs[i], err)
			return
		}
		tmu.Lock()
		trans += int64(len(hs[i].Reqs))
		// abstract state trace of the reference: connected target after each request
		conn := ""
		for k, rq := range hs[i].Reqs {
			if conn == "" && rq.Approve && !(k == 0 && hs[i].Setup != 0) {
				conn = map[bool]string{false: "T1", true: "T2"}[rq.Intent == 3]
			}
			states[fmt.Sprintf("%d|%s", k, conn)] = true
		}
		tmu.Unlock()
		for _, p := range ps {
			// identity: class + position of the request + whether a target was connected
			var k int
			fmt.Sscanf(p, "request %d", &k)
			pos := "first"
			if k > 0 {
				pos = "later"
			}
			r.Violation(fmt.Sprintf("%s:%s-request", classify(p), pos), p+" | history: "+hs[i].String(), hs[i])
		}
		r.Distinct(hs[i].String())
		if i%4001 == 0 {
			r.Sample(hs[i].String())
		}
	})
	if r.Expired() {
		r.Cap("wall-clock budget")
	}
	r.Graph(int64(len(states)), trans, trans)
	r.Set("histories", len(hs))
	r.Assume("the set-up function mirrors hopclient.setupTargetClient: it invokes the verify callback with the target certificate and fails when the callback fails")
	r.Finish()
}
