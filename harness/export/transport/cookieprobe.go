//go:build verif

package transport

import (
	"crypto/rand"
	"errors"

	"hop.computer/hop/keys"
)

// VerifCookieProbe is an adversarial discoverable-mode client in pieces: it sends a genuine
// client hello with its own ephemeral KEM key A, learns the shared secret and the cookie from
// the server hello like any client, and can then build a client ack whose MAC is correct for a
// transcript that names ANOTHER client KEM key B (A with some bytes changed). Only the cookie's
// own binding to the client key can make the server refuse such an ack.
type VerifCookieProbe struct {
	kp *keys.KEMKeyPair
	hs *HandshakeState
}

func verifProbeHS(pub keys.KEMPublicKey) *HandshakeState {
	hs := new(HandshakeState)
	hs.duplex.InitializeEmpty()
	hs.duplex.Absorb([]byte(PostQuantumProtocolName))
	hs.kem = new(kemState)
	hs.kem.ephemeral.Public = pub
	hs.dh = new(dhState)
	hs.dh.ephemeral.Generate()
	hs.certVerify = &VerifyConfig{InsecureSkipVerify: true}
	return hs
}

// VerifNewCookieProbe returns the probe and its client hello datagram.
func VerifNewCookieProbe() (*VerifCookieProbe, []byte, error) {
	kp, err := keys.GenerateKEMKeyPair(rand.Reader)
	if err != nil {
		return nil, nil, err
	}
	hs := verifProbeHS(kp.Public)
	hs.kem.ephemeral = *kp
	b := make([]byte, 65535)
	n, err := writePQClientHello(hs, b)
	if err != nil {
		return nil, nil, err
	}
	return &VerifCookieProbe{kp: kp, hs: hs}, b[:n], nil
}

// Ack builds the client ack answering serverHello. With mutate == nil it is the honest ack for
// key A; otherwise mutate changes the raw bytes of A into key B and the ack carries B with a MAC
// that is correct for the transcript hello(B), server hello (same secret, same cookie).
func (p *VerifCookieProbe) Ack(serverHello []byte, mutate func(raw []byte)) ([]byte, error) {
	out := make([]byte, 65535)
	if mutate == nil {
		if _, err := readPQServerHello(p.hs, serverHello); err != nil {
			return nil, err
		}
		p.hs.RekeyFromSqueeze(PostQuantumProtocolName)
		n, err := p.hs.writePQClientAck(out)
		return out[:n], err
	}
	if len(serverHello) < HeaderLen+KemCtLen+PQCookieLen {
		return nil, errors.New("short server hello")
	}
	raw, err := p.kp.Public.MarshalBinary()
	if err != nil {
		return nil, err
	}
	rawB := append([]byte(nil), raw...)
	mutate(rawB)
	pubB, err := keys.ParseKEMPublicKeyFromBytes(rawB)
	if err != nil {
		return nil, err
	}
	ct := serverHello[HeaderLen : HeaderLen+KemCtLen]
	cookie := serverHello[HeaderLen+KemCtLen : HeaderLen+KemCtLen+PQCookieLen]
	k, err := p.kp.Decapsulate(ct)
	if err != nil {
		return nil, err
	}
	hsB := verifProbeHS(*pubB)
	scrap := make([]byte, 65535)
	if _, err := writePQClientHello(hsB, scrap); err != nil {
		return nil, err
	}
	hsB.duplex.Absorb([]byte{byte(MessageTypeServerHello), 0, 0, 0})
	hsB.duplex.Absorb(k)
	hsB.duplex.Absorb(cookie)
	hsB.duplex.Squeeze(hsB.macBuf[:])
	hsB.RekeyFromSqueeze(PostQuantumProtocolName)
	hsB.cookie = append([]byte(nil), cookie...)
	n, err := hsB.writePQClientAck(out)
	return out[:n], err
}
