//go:build verif

package cyclist

// VerifPermute exposes the permutation selected by the build (assembly or generic).
func VerifPermute(s *[25]uint64) { keccakF1600(s) }
