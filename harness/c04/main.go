// C04 — certificate verification accepts exactly the valid chains. Deviation-bounded
// enumeration of certificate forests (public API only; certificates with arbitrary
// type/validity/linkage are built by filling exported fields, signing the serialised body with
// Ed25519 directly and re-parsing), a reference predicate evaluated on construction metadata,
// a single-bit mutation sweep, VerifyParent over all ordered pairs of a pool, and the positive
// side over chains produced by the issuing functions.
package main

import (
	"bytes"
	"crypto/ed25519"
	"fmt"
	"sync"
	"time"

	"hop.computer/hop/certs"
	"hop.computer/hop/keys"
	"hop.computer/hop/zzverif/seqx"
	"hop.computer/hop/zzverif/vk"
)

var t0 = time.Unix(1_900_000_000, 0) // the verification instant of the forest cases

type meta struct {
	Type     byte
	Names    []certs.Name
	From, To int64 // validity [From, To) in unix seconds
	ParentFP [32]byte
	SignerPK [32]byte // public key whose private half produced the signature (zero = unsigned)
	PK       [32]byte
	cert     *certs.Certificate
	raw      []byte
}

func (m *meta) valid(now time.Time) bool {
	return !now.Before(time.Unix(m.From, 0)) && now.Before(time.Unix(m.To, 0))
}

var (
	keyMu    sync.Mutex
	keyCache = map[string]*keys.SigningKeyPair{}
)

func key(name string) *keys.SigningKeyPair {
	keyMu.Lock()
	defer keyMu.Unlock()
	if k, ok := keyCache[name]; ok {
		return k
	}
	k := &keys.SigningKeyPair{}
	copy(k.Private[:], []byte("verif-c04-seed-"+name+"................................"))
	k.PublicFromPrivate()
	keyCache[name] = k
	return k
}

var (
	certMu    sync.Mutex
	certCache = map[string]*meta{}
)

// build creates a certificate exactly as a network peer would present it (parsed from bytes).
func build(typ byte, names []certs.Name, from, to int64, parent [32]byte, signer *keys.SigningKeyPair, pk [32]byte) *meta {
	ck := fmt.Sprint(typ, names, from, to, parent, signer != nil && true, pk)
	if signer != nil {
		ck += fmt.Sprint(signer.Public)
	}
	certMu.Lock()
	if m, ok := certCache[ck]; ok {
		certMu.Unlock()
		return m
	}
	certMu.Unlock()
	c := &certs.Certificate{Version: certs.Version, Type: certs.CertificateType(typ), IssuedAt: time.Unix(from, 0), ExpiresAt: time.Unix(to, 0),
		IDChunk: certs.IDChunk{Blocks: names}, PublicKey: keys.DHPublicKey(pk), Parent: parent}
	b, err := c.Marshal()
	if err != nil {
		panic(err)
	}
	m := &meta{Type: typ, Names: names, From: from, To: to, ParentFP: parent, PK: pk}
	if signer != nil {
		sig := ed25519.Sign(ed25519.NewKeyFromSeed(signer.Private[:]), b[:len(b)-64])
		copy(b[len(b)-64:], sig)
		m.SignerPK = signer.Public
	}
	p := new(certs.Certificate)
	if _, err := p.ReadFrom(bytes.NewReader(b)); err != nil {
		panic(err)
	}
	m.cert, m.raw = p, b
	certMu.Lock()
	certCache[ck] = m
	certMu.Unlock()
	return m
}

func window(v int) (int64, int64) {
	n := t0.Unix()
	switch v {
	case 0: // inside
		return n - 1000, n + 1000
	case 1: // now == issued
		return n, n + 1000
	case 2: // now == expires-1
		return n - 1000, n + 1
	case 3: // not yet valid
		return n + 1, n + 1000
	case 4: // now == expires
		return n - 1000, n
	default: // long expired
		return n - 1000, n - 500
	}
}

var dimNames = []string{"leafType", "leafNames", "reqName", "leafWindow", "i1Window", "r1Window", "leafLink", "i1Type", "i1Signer", "presented", "i1InStore", "r1Type", "r1InStore", "r2InStore", "i2InStore"}
var dims = []int{5, 6, 6, 6, 6, 6, 4, 3, 3, 3, 2, 2, 2, 2, 2}

var (
	dnsA, dnsB, rawA = certs.DNSName("a"), certs.DNSName("b"), certs.RawStringName("a")
)

type forest struct {
	leaf, i1, i2, r1, r2 *meta
	store                []*meta
	presented            *meta
	name                 certs.Name
}

func mkForest(ix []int) forest {
	var f forest
	var zero [32]byte
	r1t := byte(certs.Root)
	if ix[11] == 1 {
		r1t = byte(certs.Intermediate)
	}
	a, b := window(ix[5])
	f.r1 = build(r1t, nil, a, b, zero, key("r1"), key("r1").Public)
	a, b = window(0)
	f.r2 = build(byte(certs.Root), nil, a, b, zero, key("r2"), key("r2").Public)
	f.i2 = build(byte(certs.Intermediate), nil, a, b, f.r2.cert.Fingerprint, key("r2"), key("i2").Public)
	i1t := []byte{byte(certs.Intermediate), byte(certs.Root), byte(certs.Leaf)}[ix[7]]
	a, b = window(ix[4])
	switch ix[8] {
	case 0:
		f.i1 = build(i1t, nil, a, b, f.r1.cert.Fingerprint, key("r1"), key("i1").Public)
	case 1:
		f.i1 = build(i1t, nil, a, b, f.r2.cert.Fingerprint, key("r2"), key("i1").Public)
	default:
		f.i1 = build(i1t, nil, a, b, f.r1.cert.Fingerprint, key("i1"), key("i1").Public)
	}
	lt := []byte{byte(certs.Leaf), byte(certs.Intermediate), byte(certs.Root), 0, 4}[ix[0]]
	ln := [][]certs.Name{{dnsA}, nil, {rawA}, {dnsA, dnsB}, {dnsB}, {{Label: []byte{}, Type: certs.TypeRaw}, dnsB}}[ix[1]]
	a, b = window(ix[3])
	lk := key("leafkey").Public
	switch ix[6] {
	case 0:
		f.leaf = build(lt, ln, a, b, f.i1.cert.Fingerprint, key("i1"), lk)
	case 1:
		f.leaf = build(lt, ln, a, b, f.i2.cert.Fingerprint, key("i1"), lk)
	case 2:
		f.leaf = build(lt, ln, a, b, f.i1.cert.Fingerprint, key("i2"), lk)
	default:
		f.leaf = build(lt, ln, a, b, zero, key("i1"), lk)
	}
	f.name = []certs.Name{{}, dnsA, dnsB, rawA, {Label: []byte{}, Type: certs.TypeDNSName}, {Label: []byte{}, Type: certs.TypeRaw}}[ix[2]]
	f.presented = []*meta{f.i1, nil, f.i2}[ix[9]]
	if ix[10] == 1 {
		f.store = append(f.store, f.i1)
	}
	if ix[12] == 0 {
		f.store = append(f.store, f.r1)
	}
	if ix[13] == 1 {
		f.store = append(f.store, f.r2)
	}
	if ix[14] == 1 {
		f.store = append(f.store, f.i2)
	}
	return f
}

// refChain is the property's predicate on construction metadata (no signature verification:
// "signed by X" means the signature was produced with X's certified key).
func refChain(f forest, now time.Time) bool {
	l := f.leaf
	if l.Type != byte(certs.Leaf) {
		return false
	}
	// "a name is given" is decided here, not by the code under test: the zero Name (nil label,
	// type 0) means no name; an explicitly empty label is a name.
	if !(f.name.Label == nil && f.name.Type == 0) {
		ok := false
		for _, n := range l.Names {
			if bytes.Equal(n.Label, f.name.Label) && n.Type == f.name.Type {
				ok = true
			}
		}
		if !ok {
			return false
		}
	}
	if !l.valid(now) {
		return false
	}
	find := func(fp [32]byte, presented *meta) *meta {
		if presented != nil && presented.cert.Fingerprint == fp {
			return presented
		}
		for _, s := range f.store {
			if s.cert.Fingerprint == fp {
				return s
			}
		}
		return nil
	}
	im := find(l.ParentFP, f.presented)
	if im == nil || im.Type != byte(certs.Intermediate) || !im.valid(now) || l.SignerPK != im.PK {
		return false
	}
	rt := find(im.ParentFP, nil)
	if rt == nil || rt.Type != byte(certs.Root) || !rt.valid(now) || im.SignerPK != rt.PK {
		return false
	}
	return true
}

func verify(f forest, now time.Time) (ok bool, detail string, panicked string) {
	var s certs.Store
	for _, m := range f.store {
		s.AddCertificate(m.cert)
	}
	opts := certs.VerifyOptions{Name: f.name, CurrentTime: now}
	if f.presented != nil {
		opts.PresentedIntermediate = f.presented.cert
	}
	var err error
	panicked = vk.Try(func() { err = s.VerifyLeaf(f.leaf.cert, opts) })
	if err != nil {
		detail = err.Error()
	}
	return err == nil, detail, panicked
}

func describe(ix []int) string {
	s := ""
	for i, v := range ix {
		if v != 0 {
			s += fmt.Sprintf("%s=%d,", dimNames[i], v)
		}
	}
	if s == "" {
		return "baseline"
	}
	return s[:len(s)-1]
}

func checkForest(r *vk.Run, ix []int) {
	r.Eval()
	f := mkForest(ix)
	want := refChain(f, t0)
	got, detail, pn := verify(f, t0)
	id := "forest:" + describe(ix)
	if pn != "" {
		r.Violation(id, "VerifyLeaf "+pn, ix)
		return
	}
	if got != want {
		r.Violation(id, fmt.Sprintf("VerifyLeaf accepted=%v, reference valid=%v (%s)", got, want, detail), ix)
	}
	r.Distinct(fmt.Sprint(ix))
}

func main() {
	r := vk.New("C04", "exploration")
	if r.ReplayFile != "" {
		var ix []int
		if err := r.LoadReplay(&ix); err != nil || len(ix) != len(dims) {
			r.EngineError("replay: %v", err)
		} else {
			checkForest(r, ix)
			wallClock(r) // (wall-clock cases are re-enumerated: their verdict depends on the present)
		}
		r.Finish()
	}
	maxOff := 2
	if r.Thorough() {
		maxOff = 5
	}
	r.SetRule(fmt.Sprintf("certificate forests as tuples over %d dimensions %v (sizes %v): all tuples with <=%d dimensions off the valid baseline, plus the full product of the type/name/time dimensions; VerifyLeaf == reference predicate on construction metadata; every single bit of a verified leaf and of its presented intermediate flipped; VerifyParent on every ordered pair of a 14-certificate pool; the 8 valid/expired combinations of the three windows x 3 intermediate placements verified at the wall clock (CurrentTime zero, forest built around the real present, all windows >= 500 s from it); chains from SelfSignRoot/IssueIntermediate/IssueLeafAt over an issue-time x validity grid verified at issue, mid, expiry-1s (accept) and issue-1s, expiry (reject). distinct_nontrivial = distinct forest tuples evaluated.", len(dims), dimNames, dims, maxOff))
	list := seqx.ProductList(dims, maxOff)
	// full product of the five type/name/time dims (others at baseline)
	full := seqx.ProductList([]int{5, 6, 6, 6, 6, 6}, -1)
	if r.Quick() {
		full = seqx.ProductList([]int{5, 6, 6, 6, 1, 1}, -1)
	}
	for _, f := range full {
		ix := make([]int, len(dims))
		copy(ix, f)
		list = append(list, ix)
	}
	var accepted int64
	var amu sync.Mutex
	r.Parallel(len(list), func(i int) {
		checkForest(r, list[i])
		if refChain(mkForest(list[i]), t0) {
			amu.Lock()
			accepted++
			amu.Unlock()
		}
	})
	r.Set("forest_cases", len(list))
	r.Set("forest_cases_reference_valid", accepted)
	r.Set("deviation_bound", maxOff)
	r.Sample(map[string]any{"tuple": describe(list[len(list)/3]), "dims": dimNames})
	r.Sample(map[string]any{"tuple": describe(list[len(list)/2])})

	// mutation sweep
	base := mkForest(make([]int, len(dims)))
	if ok, d, _ := verify(base, t0); !ok {
		r.Violation("baseline", "the valid baseline chain does not verify: "+d, nil)
	}
	for which, target := range []*meta{base.leaf, base.i1} {
		nbits := 8 * len(target.raw)
		wname := []string{"leaf", "intermediate"}[which]
		r.Parallel(nbits, func(bit int) {
			r.Eval()
			mut := append([]byte{}, target.raw...)
			mut[bit/8] ^= 1 << (bit % 8)
			c := new(certs.Certificate)
			var perr error
			if pn := vk.Try(func() { _, perr = c.ReadFrom(bytes.NewReader(mut)) }); pn != "" {
				r.Violation(fmt.Sprintf("bitflip:%s:parse-panic", wname), fmt.Sprintf("ReadFrom %s on bit %d", pn, bit), bit)
				return
			}
			if perr != nil {
				return // does not parse: counts as rejected
			}
			var s certs.Store
			s.AddCertificate(base.r1.cert)
			opts := certs.VerifyOptions{Name: dnsA, CurrentTime: t0, PresentedIntermediate: base.i1.cert}
			leaf := base.leaf.cert
			if which == 0 {
				leaf = c
			} else {
				opts.PresentedIntermediate = c
			}
			var err error
			if pn := vk.Try(func() { err = s.VerifyLeaf(leaf, opts) }); pn != "" {
				r.Violation(fmt.Sprintf("bitflip:%s:panic", wname), fmt.Sprintf("VerifyLeaf %s on bit %d", pn, bit), bit)
			} else if err == nil {
				r.Violation(fmt.Sprintf("bitflip:%s:byte%d", wname, bit/8), fmt.Sprintf("chain still verifies with bit %d (byte %d) of the %s flipped", bit, bit/8, wname), bit)
			}
		})
		r.Set("bitflips_"+wname, nbits)
	}

	// VerifyParent over a pool
	var zero [32]byte
	a, b := window(0)
	pool := []*meta{base.leaf, base.i1, base.i2, base.r1, base.r2,
		build(byte(certs.Root), nil, a, b, base.r1.cert.Fingerprint, key("r1"), key("r3").Public),         // root with non-zero parent
		build(byte(certs.Root), nil, a, b, zero, key("r1"), key("r4").Public),                             // root signed by r1's key, zero parent
		build(byte(certs.Intermediate), nil, a, b, base.r1.cert.Fingerprint, key("r2"), key("i3").Public), // names r1, signed by r2
		build(byte(certs.Leaf), nil, a, b, base.i1.cert.Fingerprint, key("r1"), key("l2").Public),         // names i1, signed by r1
		build(byte(certs.Leaf), nil, a, b, base.r1.cert.Fingerprint, key("r1"), key("l3").Public),         // leaf directly under root
		build(0, nil, a, b, base.r1.cert.Fingerprint, key("r1"), key("x0").Public),
		build(4, nil, a, b, base.r1.cert.Fingerprint, key("r1"), key("x4").Public),
		build(byte(certs.Intermediate), nil, a, b, base.i1.cert.Fingerprint, key("i1"), key("i4").Public), // intermediate under intermediate
		build(byte(certs.Leaf), nil, a, b, base.i1.cert.Fingerprint, nil, key("l4").Public),               // unsigned
	}
	for ci, c := range pool {
		for pi, p := range pool {
			r.Eval()
			want := false
			switch c.Type {
			case byte(certs.Leaf):
				want = p.Type == byte(certs.Intermediate) && c.ParentFP == p.cert.Fingerprint && c.SignerPK == p.PK
			case byte(certs.Intermediate):
				want = p.Type == byte(certs.Root) && c.ParentFP == p.cert.Fingerprint && c.SignerPK == p.PK
			case byte(certs.Root):
				want = p.Type == byte(certs.Root) && c.ParentFP == zero && c.SignerPK == p.PK
			}
			var err error
			if pn := vk.Try(func() { err = certs.VerifyParent(c.cert, p.cert) }); pn != "" {
				r.Violation(fmt.Sprintf("verifyparent:%d,%d", ci, pi), "VerifyParent "+pn, nil)
			} else if (err == nil) != want {
				r.Violation(fmt.Sprintf("verifyparent:%d,%d", ci, pi), fmt.Sprintf("VerifyParent(pool[%d], pool[%d]) accepted=%v, reference %v (%v)", ci, pi, err == nil, want, err), nil)
			}
		}
	}
	r.Set("verifyparent_pairs", len(pool)*len(pool))

	positive(r)
	wallClock(r)
	r.Assume("validity is the half-open interval [IssuedAt, ExpiresAt), the convention issue.go itself uses for the parent at issuance; hash/signature collisions are impossible")
	r.Finish()
}

// positive: chains from the issuing functions verify inside their window and not outside.
// wallClock: VerifyOptions.CurrentTime left zero means "verify at the wall clock" (what the
// transport handshakes do). The forest is rebuilt around the real present and only windows that
// are at least 500 s away from it are used (valid: -1000..+1000 s, long expired: -1000..-500 s),
// so the verdict cannot depend on how long the run takes.
func wallClock(r *vk.Run) {
	saved := t0
	defer func() { t0 = saved }()
	t0 = time.Unix(time.Now().Unix(), 0)
	pos := map[string]int{}
	for i, n := range dimNames {
		pos[n] = i
	}
	for m := 0; m < 8; m++ {
		for presented := 0; presented < dims[pos["presented"]]; presented++ {
			ix := make([]int, len(dims))
			for b, d := range []string{"leafWindow", "i1Window", "r1Window"} {
				if m&(1<<b) != 0 {
					ix[pos[d]] = 5
				}
			}
			ix[pos["presented"]] = presented
			r.Eval()
			f := mkForest(ix)
			want := refChain(f, t0)
			got, detail, pn := verify(f, time.Time{})
			id := "wall-clock:" + describe(ix)
			if pn != "" {
				r.Violation(id, "VerifyLeaf "+pn, ix)
			} else if got != want {
				r.Violation(id, fmt.Sprintf("CurrentTime left zero (verification at the wall clock): VerifyLeaf accepted=%v, reference valid=%v (%s)", got, want, detail), ix)
			}
			r.Distinct("wall" + fmt.Sprint(ix))
		}
	}
}

func positive(r *vk.Run) {
	rootKey := keys.GenerateNewSigningKeyPair()
	root, err := certs.SelfSignRoot(certs.SigningIdentity(rootKey), rootKey)
	if err != nil {
		r.Violation("issue:root", "SelfSignRoot: "+err.Error(), nil)
		return
	}
	root.ProvideKey((*[32]byte)(&rootKey.Private))
	interKey := keys.GenerateNewSigningKeyPair()
	inter, err := certs.IssueIntermediate(root, certs.SigningIdentity(interKey))
	if err != nil {
		r.Violation("issue:intermediate", "IssueIntermediate: "+err.Error(), nil)
		return
	}
	inter.ProvideKey((*[32]byte)(&interKey.Private))
	now := time.Unix(time.Now().Unix()+2, 0)
	reparse := func(c *certs.Certificate) *certs.Certificate {
		b, _ := c.Marshal()
		p := new(certs.Certificate)
		if _, err := p.ReadFrom(bytes.NewReader(b)); err != nil {
			return nil
		}
		return p
	}
	for _, off := range []time.Duration{0, time.Hour, 300 * 24 * time.Hour, 365 * 24 * time.Hour} {
		for _, val := range []time.Duration{time.Second, 2 * time.Second, time.Hour, 7 * 24 * time.Hour, 2 * 365 * 24 * time.Hour} {
			for _, names := range [][]certs.Name{{dnsA}, {rawA, dnsB}, nil} {
				issuedAt := now.Add(off)
				lk := keys.GenerateNewX25519KeyPair()
				leaf, err := certs.IssueLeafAt(inter, certs.LeafIdentity(lk, names...), issuedAt, val)
				id := fmt.Sprintf("issue:leaf:off=%v,val=%v,names=%d", off, val, len(names))
				if err != nil {
					r.Violation(id, "IssueLeafAt: "+err.Error(), nil)
					continue
				}
				for _, variant := range []string{"object", "reparsed"} {
					l, im, rt := leaf, inter, root
					if variant == "reparsed" {
						l, im, rt = reparse(leaf), reparse(inter), reparse(root)
						if l == nil || im == nil || rt == nil {
							r.Violation(id, "issued certificate does not re-parse", nil)
							continue
						}
					}
					// the in-memory object keeps sub-second times, the serialised form whole seconds:
					// probe each variant at its own window edges
					exp, issuedAt := l.ExpiresAt, l.IssuedAt
					for _, presented := range []bool{true, false} {
						var s certs.Store
						s.AddCertificate(rt)
						opts := certs.VerifyOptions{}
						if presented {
							opts.PresentedIntermediate = im
						} else {
							s.AddCertificate(im)
						}
						if len(names) > 0 {
							opts.Name = names[len(names)-1]
						}
						type probe struct {
							at   time.Time
							want bool
							what string
						}
						mid := issuedAt.Add(exp.Sub(issuedAt) / 2)
						ps := []probe{{issuedAt, true, "issue time"}, {mid, true, "mid-window"}, {exp.Add(-time.Second), true, "expiry-1s"},
							{issuedAt.Add(-time.Second), false, "issue-1s"}, {exp, false, "expiry"}, {exp.Add(time.Hour), false, "expiry+1h"}}
						for _, p := range ps {
							r.Eval()
							opts.CurrentTime = p.at
							err := s.VerifyLeaf(l, opts)
							if (err == nil) != p.want {
								r.Violation(id+":"+p.what, fmt.Sprintf("chain from the issuing functions (%s, presented=%v) at %s: accepted=%v want %v (%v)", variant, presented, p.what, err == nil, p.want, err), nil)
							}
						}
					}
				}
			}
		}
	}
}
