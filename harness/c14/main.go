// C14 — replay filter: explicit-state BFS over counter histories on the real
// transport.SlidingWindow against a set-of-accepted-counters reference.
package main

import (
	"fmt"
	"sort"
	"strings"

	"hop.computer/hop/transport"
	"hop.computer/hop/zzverif/seqx"
	"hop.computer/hop/zzverif/vk"
)

const window = 448 // from the property statement, not from the code

type op struct {
	Start bool   `json:"start,omitempty"` // initial "accept base" (absolute)
	Abs   bool   `json:"abs,omitempty"`
	V     int64  `json:"v"`           // delta relative to current top, or absolute value
	C     uint64 `json:"c,omitempty"` // resolved counter (filled in during execution, informational)
}

var deltas = []int64{-513, -512, -511, -449, -448, -447, -385, -384, -65, -64, -63, -1, 0, +1, +2, +63, +64,
	+65, +127, +128, +447, +448, +449, +511, +512, +513, +575, +576, +1023, +1024, 1 << 20, 1 << 40}
var absolutes = []int64{0, 1, 63, 64}
var bases = []int64{-1, 62, 63, 64, 447, 448, 449, 511, 512, 513, 1<<32 - 1, 1 << 62}

type ref struct {
	acc map[uint64]bool
	top uint64
	any bool
}

func (r *ref) fresh(c uint64) bool { return !r.acc[c] && c+window >= r.top }
func (r *ref) accept(c uint64) {
	r.acc[c] = true
	if c > r.top {
		r.top = c
	}
	r.any = true
}

// transportAccept is exactly how transport/transport.go uses the filter.
func transportAccept(sw *transport.SlidingWindow, c uint64) bool {
	if !sw.Check(c) {
		return false
	}
	sw.Mark(c)
	return true
}

func resolve(o op, top uint64) (uint64, bool) {
	if o.Start || o.Abs {
		return uint64(o.V), true
	}
	if o.V < 0 {
		if uint64(-o.V) > top {
			return 0, false
		}
		return top - uint64(-o.V), true
	}
	c := top + uint64(o.V)
	if c >= 1<<63 || c < top {
		return 0, false
	}
	return c, true
}

// fullOracle compares Check with the reference on the whole neighbourhood of the window.
func fullOracle(sw *transport.SlidingWindow, r *ref, extra []uint64) string {
	before := fmt.Sprint(*sw)
	lo := uint64(0)
	if r.top > 520 {
		lo = r.top - 520
	}
	for p := lo; p <= r.top+2; p++ {
		if got, want := sw.Check(p), r.fresh(p); got != want {
			return fmt.Sprintf("Check(%d)=%v but reference says fresh=%v (top=%d, accepted-before=%v)", p, got, want, r.top, r.acc[p])
		}
	}
	for _, p := range extra {
		if got, want := sw.Check(p), r.fresh(p); got != want {
			return fmt.Sprintf("Check(%d)=%v but reference says fresh=%v (top=%d, accepted-before=%v)", p, got, want, r.top, r.acc[p])
		}
	}
	if fmt.Sprint(*sw) != before {
		return "Check mutated the filter"
	}
	return ""
}

func key(sw *transport.SlidingWindow, r *ref) string {
	var in []uint64
	for c := range r.acc {
		if c+window >= r.top {
			in = append(in, c)
		}
	}
	sort.Slice(in, func(i, j int) bool { return in[i] < in[j] })
	return fmt.Sprint(*sw, in)
}

func exec(path []op) (st seqx.Step, trace []string) {
	var sw transport.SlidingWindow
	r := &ref{acc: map[uint64]bool{}}
	anchors := []uint64{0, 1, 63, 64}
	for i := range path {
		c, ok := resolve(path[i], r.top)
		if !ok {
			return seqx.Step{Key: key(&sw, r), Stop: true}, trace
		}
		path[i].C = c
		want := r.fresh(c)
		got := transportAccept(&sw, c)
		trace = append(trace, fmt.Sprintf("accept(%d)=%v", c, got))
		if got != want {
			return seqx.Step{Bad: fmt.Sprintf("step %d: accept(%d) returned %v, reference %v (top=%d) trace=%s", i, c, got, want, r.top, strings.Join(trace, " "))}, trace
		}
		if want {
			r.accept(c)
		}
		anchors = append(anchors, c, c+1)
		if c > 0 {
			anchors = append(anchors, c-1)
		}
	}
	if bad := fullOracle(&sw, r, anchors); bad != "" {
		return seqx.Step{Bad: bad + " after " + strings.Join(trace, " ")}, trace
	}
	return seqx.Step{Key: key(&sw, r)}, trace
}

func main() {
	r := vk.New("C14", "model_checking")
	if r.ReplayFile != "" {
		var p []op
		if err := r.LoadReplay(&p); err != nil {
			fmt.Println("replay:", err)
			return
		}
		st, tr := exec(p)
		fmt.Println("trace:", tr)
		if st.Bad != "" {
			r.Violation("replayed", st.Bad, p)
		}
		r.Finish()
	}
	depth := 3
	if r.Thorough() {
		depth = 5
	}
	r.SetRule(fmt.Sprintf("explicit-state BFS on the real SlidingWindow: first op = one of %d start states (fresh, or accept(base)), then every sequence of <=%d accept-as-transport-does ops drawn from %d offsets relative to the current top plus %d absolute counters; in every new state Check is compared with the reference on every counter in [top-520, top+2] and on all anchors; states deduplicated on (blocks, top, window-restricted accepted set); a state is non-trivial/distinct by that key. Plus deterministic long tours (2000 steps) for strides x phases with the full oracle at every step.", len(bases), depth, len(deltas), len(absolutes)))
	var alpha []op
	for _, d := range deltas {
		alpha = append(alpha, op{V: d})
	}
	for _, a := range absolutes {
		alpha = append(alpha, op{Abs: true, V: a})
	}
	b := &seqx.BFS[op]{
		MaxDepth: depth + 1, Workers: r.Workers, Expired: r.Expired,
		Alphabet: func(path []op) []op {
			if len(path) == 0 {
				var s []op
				for _, bs := range bases {
					if bs < 0 {
						s = append(s, op{Start: true, V: 0}) // accept(0) from fresh is itself interesting
					} else {
						s = append(s, op{Start: true, V: bs})
					}
				}
				// also plain ops from the fresh filter
				return append(s, alpha...)
			}
			return alpha
		},
		Exec: func(path []op) seqx.Step {
			r.Eval()
			st, tr := exec(path)
			if st.Bad == "" && !st.Stop {
				r.Distinct(st.Key)
				if len(path) == depth+1 {
					r.Sample(strings.Join(tr, " "))
				}
			}
			return st
		},
		OnBad: func(path []op, bad string) {
			// identity of a failure: the relative-op shape, so distinct failing histories stay distinct
			var k []string
			for _, o := range path {
				switch {
				case o.Start:
					k = append(k, fmt.Sprintf("S%d", o.V))
				case o.Abs:
					k = append(k, fmt.Sprintf("A%d", o.V))
				default:
					k = append(k, fmt.Sprintf("%+d", o.V))
				}
			}
			r.Violation("hist:"+strings.Join(k, ","), bad, path)
		},
	}
	st := b.Run()
	if st.Capped {
		r.Cap("budget expired during BFS")
	}
	r.Graph(st.States, st.Transitions, st.Transitions)
	r.Set("bfs_depth_completed", st.MaxDepth)

	// long deterministic tours
	strides := []uint64{1, 63, 64, 65, 447, 448, 449, 512}
	type tour struct{ stride, phase uint64 }
	var tours []tour
	for _, s := range strides {
		for ph := uint64(0); ph < 64; ph++ {
			tours = append(tours, tour{s, ph})
		}
	}
	steps := 600
	if r.Thorough() {
		steps = 2000
	}
	r.Parallel(len(tours), func(i int) {
		t := tours[i]
		var sw transport.SlidingWindow
		rf := &ref{acc: map[uint64]bool{}}
		c := t.phase
		for n := 0; n < steps; n++ {
			// forward step, then revisit an older counter (alternating edge / inside / duplicate)
			for _, x := range []uint64{c, c - min(c, uint64(n%5)*97), c} {
				want := rf.fresh(x)
				got := transportAccept(&sw, x)
				r.Eval()
				if got != want {
					r.Violation(fmt.Sprintf("tour:stride=%d,phase=%d", t.stride, t.phase), fmt.Sprintf("step %d accept(%d)=%v want %v", n, x, got, want), t)
					return
				}
				if want {
					rf.accept(x)
				}
			}
			if bad := fullOracle(&sw, rf, nil); bad != "" {
				r.Violation(fmt.Sprintf("tour:stride=%d,phase=%d", t.stride, t.phase), bad, t)
				return
			}
			// keep the reference small: forget counters far below the window (always stale)
			if n%64 == 0 {
				for k := range rf.acc {
					if k+2000 < rf.top {
						delete(rf.acc, k)
					}
				}
			}
			c += t.stride
		}
	})
	r.Set("tours", len(tours))
	r.Set("tour_steps", steps)
	r.Assume("counters stay below 2^63 as the transport guarantees; the window size 448 is taken from the property statement")
	r.Finish()
}
