//go:build verif

package authgrants

import (
	"fmt"
	"sort"
	"strings"
)

// VerifDump renders the grant map canonically: user/key -> list of (type, cmd, start, exp).
func (m *AuthgrantMapSync) VerifDump() string {
	m.agLock.Lock()
	defer m.agLock.Unlock()
	var out []string
	for u, km := range m.agMap {
		for k, ags := range km {
			var g []string
			for _, a := range ags {
				g = append(g, fmt.Sprintf("%d:%q:%d:%d", a.GrantType, a.AssociatedData.CommandGrantData.Cmd, a.StartTime.Unix(), a.ExpTime.Unix()))
			}
			if len(g) > 0 {
				out = append(out, fmt.Sprintf("%s/%x=[%s]", u, k[:4], strings.Join(g, ",")))
			}
		}
	}
	sort.Strings(out)
	return strings.Join(out, ";")
}

// VerifNames lists the command texts of the grants stored for user/key.
func (m *AuthgrantMapSync) VerifNames(user string, key [32]byte) []string {
	m.agLock.Lock()
	defer m.agLock.Unlock()
	var out []string
	for _, a := range m.agMap[user][key] {
		out = append(out, a.AssociatedData.CommandGrantData.Cmd)
	}
	return out
}
