// Package tuberig provides an in-memory transport.MsgConn pair and helpers to run two real tube
// muxers over it (free-running goroutines, real time; the link itself is instantaneous and
// faithful unless a filter says otherwise).
package tuberig

import (
	"io"
	"net"
	"os"
	"sync"
	"time"

	"github.com/sirupsen/logrus"

	"hop.computer/hop/tubes"
)

type addr string

func (a addr) Network() string { return "mem" }
func (a addr) String() string  { return string(a) }

// Filter decides what happens to a message written on a MemConn: return the list of messages
// to deliver to the peer (nil = deliver unchanged, empty = drop).
type Filter func(dir string, n int, msg []byte) [][]byte

// MemConn is one end of an in-memory message connection.
type MemConn struct {
	name   string
	in     chan []byte
	peer   *MemConn
	closed chan struct{}
	once   sync.Once

	mu       sync.Mutex
	deadline time.Time
	dlChange chan struct{}
	filter   Filter
	sent     int
	Log      [][]byte // every message written on this end
}

// Pair returns two connected ends.
func Pair() (*MemConn, *MemConn) {
	a := &MemConn{name: "a", in: make(chan []byte, 4096), closed: make(chan struct{}), dlChange: make(chan struct{}, 1)}
	b := &MemConn{name: "b", in: make(chan []byte, 4096), closed: make(chan struct{}), dlChange: make(chan struct{}, 1)}
	a.peer, b.peer = b, a
	return a, b
}

func (c *MemConn) SetFilter(f Filter) {
	c.mu.Lock()
	c.filter = f
	c.mu.Unlock()
}

// Inject delivers raw bytes to this end as if the peer had written them.
func (c *MemConn) Inject(b []byte) {
	select {
	case c.in <- append([]byte{}, b...):
	case <-c.closed:
	}
}

func (c *MemConn) ReadMsg(b []byte) (int, error) {
	for {
		c.mu.Lock()
		dl := c.deadline
		c.mu.Unlock()
		var timer <-chan time.Time
		if !dl.IsZero() {
			d := time.Until(dl)
			if d <= 0 {
				// data that is already queued is still returned first
				select {
				case m := <-c.in:
					return copy(b, m), nil
				default:
				}
				return 0, os.ErrDeadlineExceeded
			}
			t := time.NewTimer(d)
			defer t.Stop()
			timer = t.C
		}
		select {
		case m := <-c.in:
			return copy(b, m), nil
		case <-c.closed:
			select {
			case m := <-c.in:
				return copy(b, m), nil
			default:
			}
			return 0, net.ErrClosed
		case <-timer:
			// re-evaluate: the deadline may have been extended meanwhile
		case <-c.dlChange:
		}
	}
}

func (c *MemConn) WriteMsg(b []byte) error {
	select {
	case <-c.closed:
		return net.ErrClosed
	default:
	}
	c.mu.Lock()
	f := c.filter
	n := c.sent
	c.sent++
	c.Log = append(c.Log, append([]byte{}, b...))
	c.mu.Unlock()
	outs := [][]byte{b}
	if f != nil {
		if o := f(c.name, n, b); o != nil {
			outs = o
		}
	}
	for _, o := range outs {
		select {
		case c.peer.in <- append([]byte{}, o...):
		case <-c.peer.closed:
		case <-c.closed:
			return net.ErrClosed
		}
	}
	return nil
}

func (c *MemConn) Read(b []byte) (int, error) { return c.ReadMsg(b) }
func (c *MemConn) Write(b []byte) (int, error) {
	if err := c.WriteMsg(b); err != nil {
		return 0, err
	}
	return len(b), nil
}

func (c *MemConn) Close() error {
	c.once.Do(func() { close(c.closed) })
	return nil
}

func (c *MemConn) LocalAddr() net.Addr  { return addr("mem-" + c.name) }
func (c *MemConn) RemoteAddr() net.Addr { return addr("mem-" + c.peer.name) }

func (c *MemConn) SetDeadline(t time.Time) error { return c.SetReadDeadline(t) }
func (c *MemConn) SetReadDeadline(t time.Time) error {
	c.mu.Lock()
	c.deadline = t
	c.mu.Unlock()
	select {
	case c.dlChange <- struct{}{}:
	default:
	}
	return nil
}
func (c *MemConn) SetWriteDeadline(t time.Time) error { return nil }

// Muxers is a connected client/server muxer pair.
type Muxers struct {
	CConn, SConn *MemConn
	Client       *tubes.Muxer
	Server       *tubes.Muxer
}

func quietLog() *logrus.Entry {
	l := logrus.New()
	if os.Getenv("VERIF_LOG") != "" {
		l.SetOutput(os.Stderr)
		l.SetLevel(logrus.TraceLevel)
		return logrus.NewEntry(l)
	}
	l.SetOutput(io.Discard)
	l.SetLevel(logrus.PanicLevel)
	return logrus.NewEntry(l)
}

// NewMuxers starts two muxers over a fresh pair. timeout is the muxers' idle timeout.
func NewMuxers(timeout time.Duration) *Muxers {
	a, b := Pair()
	m := &Muxers{CConn: a, SConn: b}
	m.Client = tubes.Client(a, &tubes.Config{Timeout: timeout, Log: quietLog()})
	m.Server = tubes.Server(b, &tubes.Config{Timeout: timeout, Log: quietLog()})
	return m
}

// ReliablePair opens a reliable tube from the client and accepts it on the server.
func (m *Muxers) ReliablePair(t tubes.TubeType) (c *tubes.Reliable, s *tubes.Reliable, err error) {
	c, err = m.Client.CreateReliableTube(t)
	if err != nil {
		return nil, nil, err
	}
	tb, err := m.Server.Accept()
	if err != nil {
		return nil, nil, err
	}
	return c, tb.(*tubes.Reliable), nil
}

func (m *Muxers) Stop() {
	done := make(chan struct{})
	go func() {
		var wg sync.WaitGroup
		wg.Add(2)
		go func() { defer wg.Done(); m.Client.Stop() }()
		go func() { defer wg.Done(); m.Server.Stop() }()
		wg.Wait()
		close(done)
	}()
	select {
	case <-done:
	case <-time.After(20 * time.Second):
	}
}
