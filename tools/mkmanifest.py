#!/usr/bin/env python3
"""Generates MANIFEST.json from checks.json (single source of truth for the driver and the manifest)."""
import json, os
V = os.path.dirname(os.path.dirname(os.path.abspath(__file__)))
checks = json.load(open(os.path.join(V, "checks.json")))
props = [json.loads(l)["id"] for l in open(os.path.join(V, "properties.jsonl"))]
m = {
    "version": 1,
    "setup_cmd": "./setup.sh",
    "hooks": {
        "guard": "verif",
        "enable": "no source hooks are committed to /repo: white-box export files (//go:build verif), the engine packages (hop.computer/hop/zzverif/...) and, for the scheduler-controlled checks, instrumented copies of common/tubes/transport are injected at check time with `go build -tags verif -overlay <generated>.json` from /repo's current working tree (see ./check)",
        "baseline_off_cmd": "cd /repo && GOFLAGS=-mod=mod GOPROXY=off go test -vet=off -count=1 -timeout 25m ./...",
        "source_commits": [],
        "add_only": True,
    },
    "engines": [
        {"name": "seqx", "path": "engine/seqx", "kind_free_text": "E1: explicit-state BFS (state = op history replayed on a fresh real object, dedup on canonical key incl. reference state) and deviation-bounded product enumeration for sequential code"},
        {"name": "netx", "path": "engine/simnet", "kind_free_text": "E2: adversary explorer over an in-memory UDP wire driving the real transport endpoints, exact quiescence detection, crash-isolating worker subprocesses"},
        {"name": "vsched", "path": "engine/vrt", "kind_free_text": "E3: deterministic scheduler + virtual clock for Go by source rewriting (tools/vinstr), iterative deviation-bounded DFS over thread/select/timer choices"},
    ],
    "checks": [],
    "not_applicable": [],
    "notes": "Every check is `./check <id> quick|thorough`; exit 0 held, 1 VIOLATION, 2 engine/build error. See DESIGN.md.",
}
served = {"seqx": [], "netx": [], "vsched": []}
for pid in props:
    c = checks.get(pid)
    if not c or c.get("pending"):
        m["not_applicable"].append({"property_id": pid, "reason": (c or {}).get("pending", "check not built yet")})
        continue
    for e in c.get("engines", []):
        served[e].append(pid)
    m["checks"].append({
        "property_id": pid,
        "quick_cmd": "./check %s quick" % pid,
        "thorough_cmd": "./check %s thorough" % pid,
        "evidence_file": "/verif/evidence/%s.json" % pid,
        "replay_cmd_template": "./check %s quick --replay {path}" % pid,
        "engine": "+".join(c.get("engines", [])),
        "level_claimed": {"category": c["level"], "text": c["level_text"], "design_ref": c.get("design_ref", "DESIGN.md §4 " + pid)},
        "level_note": c["level_note"],
        "technique": c["technique"],
    })
for e in m["engines"]:
    e["serves_properties"] = served[e["name"]]
json.dump(m, open(os.path.join(V, "MANIFEST.json"), "w"), indent=1)
print("MANIFEST.json: %d checks, %d not_applicable" % (len(m["checks"]), len(m["not_applicable"])))
