// C17 — deadline queues (and transport connections) under concurrent use, decided with the
// scheduler-controlled explorer (E3): small concurrent programs over common.DeadlineChan are
// executed under every schedule within the deviation bounds; the -race twin runs the same
// bodies free.
package main

import (
	"errors"
	"flag"
	"fmt"
	"io"
	"os"
	"os/exec"
	"sort"
	"strings"
	"sync"
	"time"

	"hop.computer/hop/common"
	"hop.computer/hop/zzverif/vk"
	"hop.computer/hop/zzverif/vrt"
	"hop.computer/hop/zzverif/vsync"
	"hop.computer/hop/zzverif/vx"
)

var worker = flag.Bool("vx-worker", false, "internal")
var transportBin = flag.String("bin-transport", "", "the transport-level harness (c17t), built with transport rewritten for the scheduler")
var raceQBin = flag.String("bin-raceq", "", "this harness built with -race and without the scheduler rewrite (free-running pass, queue programs)")
var raceTBin = flag.String("bin-racet", "", "the transport harness built with -race and without the scheduler rewrite (free-running pass)")
var racePass = flag.Bool("race-pass", false, "internal: child mode of the -race build, runs the free-running pass and reports the races")
var raceChild = flag.Int("race-runs", 0, "internal: run the scenarios free-running this many times")
var raceShard = flag.String("race-shard", "0/1", "internal: i/n, run the programs with index = i mod n")

// ---- programs over the queue ----

// op codes: S send (unique item), R receive, P deadline in the past, F deadline +1s, Z zero
// deadline, X cancel, C close
type program struct {
	Cap     int      `json:"cap"`
	Threads []string `json:"threads"`
}

func (p program) String() string {
	return fmt.Sprintf("cap=%d %s", p.Cap, strings.Join(p.Threads, " || "))
}

func parseProgram(s string) program {
	var p program
	parts := strings.SplitN(s, " ", 2)
	fmt.Sscanf(parts[0], "cap=%d", &p.Cap)
	p.Threads = strings.Split(parts[1], " || ")
	return p
}

type event struct {
	seq    int
	thread int
	op     byte
	start  bool
	item   int
	err    string
}

func errName(err error) string {
	switch {
	case err == nil:
		return "nil"
	case errors.Is(err, io.EOF):
		return "EOF"
	case errors.Is(err, os.ErrDeadlineExceeded):
		return "timeout"
	}
	return "err:" + err.Error()
}

func queueScenario(arg string) *vx.Scenario {
	p := parseProgram(arg)
	return &vx.Scenario{Name: "queue:" + arg, Cfg: vrt.Config{MaxSteps: 20000, Settle: 5 * time.Second}, Run: func() {
		q := common.NewDeadlineChan[int](p.Cap)
		var log []event
		seq := 0
		rec := func(th int, op byte, start bool, item int, err string) {
			seq++
			log = append(log, event{seq, th, op, start, item, err})
		}
		var wg vsync.WaitGroup
		item := 0
		closeCalled := false
		for ti, ops := range p.Threads {
			ti, ops := ti, ops
			base := item
			for _, o := range ops {
				if o == 'S' {
					item++
				}
			}
			wg.Add(1)
			vrt.Go(func() {
				defer wg.Done()
				n := base
				for _, o := range []byte(ops) {
					switch o {
					case 'S':
						n++
						rec(ti, 'S', true, n, "")
						err := q.Send(n)
						rec(ti, 'S', false, n, errName(err))
					case 'R':
						rec(ti, 'R', true, 0, "")
						v, err := q.Recv()
						rec(ti, 'R', false, v, errName(err))
					case 'P':
						q.SetDeadline(vrt.Now().Add(-time.Second))
						rec(ti, 'P', false, 0, "")
					case 'F':
						q.SetDeadline(vrt.Now().Add(time.Second))
						rec(ti, 'F', false, 0, "")
					case 'Z':
						q.SetDeadline(time.Time{})
						rec(ti, 'Z', false, 0, "")
					case 'X':
						q.Cancel(errors.New("cancelled"))
						rec(ti, 'X', false, 0, "")
					case 'C':
						rec(ti, 'C', true, 0, "")
						closeCalled = true
						err := q.Close()
						rec(ti, 'C', false, 0, errName(err))
					}
				}
			})
		}
		// the environment eventually closes the queue (when nothing else can happen any more):
		// after that every call must return
		vrt.WaitIdle()
		rec(-1, 'C', true, 0, "")
		_ = closeCalled
		q.Close()
		rec(-1, 'C', false, 0, "")
		wg.Wait()
		// final drain: whatever is still queued
		var left []int
		for {
			v, err := q.Recv()
			if err != nil {
				if !errors.Is(err, io.EOF) {
					vrt.Fail("final drain on a closed queue returned %s instead of end-of-stream", errName(err))
				}
				break
			}
			left = append(left, v)
			if len(left) > 10 {
				vrt.Fail("final drain does not terminate")
				break
			}
		}
		judgeQueue(p, log, left)
	}}
}

// judgeQueue checks the recorded call/return history (a total order: one thread runs at a time).
func judgeQueue(p program, log []event, left []int) {
	sentOK := map[int]int{} // item -> seq of the successful Send's return
	got := map[int]int{}    // item -> times received
	firstClose := 0         // seq at which the first Close was invoked
	for _, e := range log {
		switch {
		case e.op == 'S' && !e.start && e.err == "nil":
			sentOK[e.item] = e.seq
		case e.op == 'C' && e.start && firstClose == 0:
			firstClose = e.seq
		case e.op == 'R' && !e.start && e.err == "nil":
			got[e.item]++
		}
	}
	for it, n := range got {
		if n > 1 {
			vrt.Fail("item %d was received %d times", it, n)
		}
		if _, ok := sentOK[it]; !ok {
			// a Send that reported an error must not have delivered; a Send still counted as failed
			// but delivered is a duplicate risk for the caller
			sent := false
			for _, e := range log {
				if e.op == 'S' && e.item == it {
					sent = true
				}
			}
			if !sent {
				vrt.Fail("item %d was received but never sent", it)
			}
		}
	}
	// call intervals of the receives that obtained each item
	recvStart, recvEnd := map[int]int{}, map[int]int{}
	{
		open := map[int]int{} // thread -> seq of its Recv in progress
		for _, e := range log {
			if e.op != 'R' {
				continue
			}
			if e.start {
				open[e.thread] = e.seq
			} else if e.err == "nil" {
				recvStart[e.item], recvEnd[e.item] = open[e.thread], e.seq
			}
		}
	}
	owner := func(it int) int {
		for _, e := range log {
			if e.op == 'S' && e.item == it {
				return e.thread
			}
		}
		return -1
	}
	// FIFO (linearizable): for items i < j of one sender, the receive of j must not have returned
	// before the receive of i was even called
	for i := range recvEnd {
		for j := range recvEnd {
			if i < j && owner(i) == owner(j) && recvEnd[j] < recvStart[i] {
				vrt.Fail("items of one sender were received out of order (%d was returned before the receive that got %d was called)", j, i)
			}
		}
	}
	// data queued before Close is returned before end-of-stream: a Recv must not return EOF at a
	// moment when an item whose Send had already returned nil (before any Close was invoked) was
	// sitting in the queue, i.e. was not already being taken by a receive in progress.
	for _, e := range log {
		if e.op != 'R' || e.start || e.err != "EOF" {
			continue
		}
		for it, s := range sentOK {
			if (firstClose != 0 && s > firstClose) || s > e.seq {
				continue
			}
			rs, taken := recvStart[it]
			if !taken || rs > e.seq {
				vrt.Fail("Recv returned end-of-stream although item %d had been queued before Close and was still waiting in the queue", it)
			}
		}
	}
	// a successfully sent item is never lost: received or still queued at the end
	for it := range sentOK {
		found := got[it] > 0
		for _, l := range left {
			if l == it {
				found = true
			}
		}
		if !found {
			vrt.Fail("item %d was accepted by Send but neither received nor left in the queue", it)
		}
	}
	var out []string
	for _, e := range log {
		if !e.start && (e.op == 'S' || e.op == 'R' || e.op == 'C') {
			out = append(out, fmt.Sprintf("%d%c%d=%s", e.thread, e.op, e.item, e.err))
		}
	}
	vrt.Outcome("%s|left=%v", strings.Join(out, ","), left)
}

func programs(thorough bool) []program {
	alpha := "SRPFZXC"
	var seqs []string
	for _, a := range alpha {
		seqs = append(seqs, string(a))
	}
	for _, a := range alpha {
		for _, b := range alpha {
			seqs = append(seqs, string(a)+string(b))
		}
	}
	var out []program
	seen := map[string]bool{}
	add := func(cap int, th ...string) {
		sort.Strings(th)
		k := fmt.Sprint(cap, th)
		if !seen[k] {
			seen[k] = true
			out = append(out, program{cap, th})
		}
	}
	interesting := func(th []string) bool {
		all := strings.Join(th, "")
		return strings.ContainsAny(all, "SRC") // at least one queue operation (the final drain is one too)
	}
	for _, cap := range []int{0, 1, 2} {
		for i, a := range seqs {
			for _, b := range seqs[i:] {
				if len(a)+len(b) > 2 && !thorough {
					continue
				}
				if interesting([]string{a, b}) {
					add(cap, a, b)
				}
			}
		}
	}
	// hand-picked larger shapes (both tiers)
	for _, cap := range []int{0, 1, 2} {
		add(cap, "SS", "RR")
		add(cap, "SSS", "C", "RR")
		add(cap, "S", "C", "RR")
		add(cap, "S", "C", "R")
		add(cap, "R", "F")
		add(cap, "R", "FZ")
		add(cap, "RR", "S", "C")
		add(cap, "R", "R", "SS")
		add(cap, "C", "C", "R")
		add(cap, "SS", "FR", "C")
		add(cap, "S", "S", "RR")
	}
	return out
}

func init() {
	vx.Registry["queue"] = queueScenario
}

func classify(w string) string {
	for _, k := range []string{"deadlock", "panic", "received %d times", "times", "out of order", "end-of-stream although", "neither received", "never sent", "final drain", "leaked"} {
		if strings.Contains(w, k) {
			return strings.ReplaceAll(strings.ReplaceAll(k, " ", "-"), "%d-", "")
		}
	}
	return "other"
}

func main() {
	flag.Parse()
	if *worker {
		vx.WorkerMain()
		return
	}
	if *raceChild > 0 {
		raceTwin(*raceChild)
		return
	}
	if *racePass {
		racePassMain()
		return
	}
	r := vk.New("C17", "model_checking")
	if r.ReplayFile != "" {
		var c struct {
			Scenario string `json:"scenario"`
			Arg      string `json:"arg"`
			Choices  []int  `json:"choices"`
		}
		if err := r.LoadReplay(&c); err != nil {
			r.EngineError("replay: %v", err)
			r.Finish()
		}
		if strings.HasPrefix(c.Scenario, "race-") {
			// a race report is evidence in itself (the detector has no false positives); the
			// free-running pass cannot be replayed deterministically
			fmt.Println("race report recorded by the free-running pass (not replayable deterministically; re-run the check):")
			b, _ := os.ReadFile(r.ReplayFile)
			fmt.Println(string(b))
			r.Finish()
		}
		if c.Scenario == "" && *transportBin != "" {
			// a schedule of the transport part: replayed by the build it was found on
			cmd := exec.Command(*transportBin, "-replay", r.ReplayFile, "-tier", r.Tier)
			cmd.Stdout, cmd.Stderr = os.Stdout, os.Stderr
			if err := cmd.Run(); err != nil {
				if ee, ok := err.(*exec.ExitError); ok {
					os.Exit(ee.ExitCode())
				}
				os.Exit(2)
			}
			os.Exit(0)
		}
		sc := vx.Registry[c.Scenario](c.Arg)
		sc.Cfg.Trace = true
		ps, stable, res := vx.Replay(sc, c.Choices)
		for _, l := range res.Log {
			fmt.Println("  ", l)
		}
		fmt.Println("outcome:", res.Outcome, "stable:", stable)
		for _, p := range ps {
			r.Violation("replayed:"+classify(p), p, c)
		}
		r.Finish()
	}
	bounds := vx.Bounds{2, 1, 2, 1, 0}
	if r.Thorough() {
		bounds = vx.Bounds{3, 2, 3, 1, 0}
	}
	progs := programs(r.Thorough())
	r.SetRule(fmt.Sprintf("every program of 2-3 threads over the real common.DeadlineChan (ops: Send, Recv, SetDeadline past / +1s / zero, Cancel, Close; capacities 0,1,2; all pairs of op sequences up to the tier's length plus hand-picked 3-thread shapes; the environment closes the queue once nothing else can happen and drains it) executed under the deterministic scheduler for every schedule within deviation bounds %v (iterative deviation bounding, executions run to completion, virtual clock). Oracles per execution: no deadlock (every call returns once a close or an expiry happened), no panic, each item received at most once and in its sender's order, data queued before Close never skipped by an end-of-stream, accepted items never lost. states = distinct schedules (operation-trace hashes), transitions = choice points met; distinct_nontrivial = distinct abstract outcomes (per-call results) observed.", bounds))
	e := &vx.Explorer{Bounds: bounds, MaxExec: 400000, Deadline: r.Deadline}
	var execs, points int64
	traces := 0
	outcomes := map[string]bool{}
	for i, p := range progs {
		if r.Expired() {
			r.Cap(fmt.Sprintf("budget expired after %d of %d programs", i, len(progs)))
			break
		}
		st := e.Explore("queue", p.String(), r.Workers)
		execs += st.Executions
		points += st.Points
		traces += st.NTraces
		if st.Capped {
			r.Cap("execution cap hit for program " + p.String())
		}
		for o := range st.Outcomes {
			outcomes[p.String()+"|"+o] = true
		}
		for _, pr := range st.Problems {
			if strings.HasPrefix(pr.What, "ENGINE:") {
				r.EngineError("%s: %s", p, pr.What)
				continue
			}
			// confirm by replaying the recorded schedule twice
			sc := vx.Registry["queue"](p.String())
			ps, stable, _ := vx.Replay(sc, pr.Choices)
			if !stable || len(ps) == 0 {
				r.EngineError("violation did not reproduce deterministically for %s: %s", p, pr.What)
				continue
			}
			r.Violation("queue:"+classify(pr.What), fmt.Sprintf("%s | program: %s | schedule: %d choices", pr.What, p, len(pr.Choices)), map[string]any{"scenario": "queue", "arg": p.String(), "choices": pr.Choices})
		}
		if os.Getenv("VERIF_VERBOSE") != "" {
			fmt.Printf("prog %-30s exec=%d traces=%d outcomes=%d maxpoints=%d\n", p.String(), st.Executions, st.NTraces, len(st.Outcomes), st.MaxPoints)
		}
		if i%37 == 0 {
			r.Sample(map[string]any{"program": p.String(), "executions": st.Executions, "distinct_schedules": st.NTraces, "distinct_outcomes": len(st.Outcomes)})
		}
	}
	r.EvalN(execs)
	for o := range outcomes {
		r.Distinct(o)
	}
	r.Graph(int64(traces), points, execs)
	r.Set("programs", len(progs))
	r.Set("bounds", bounds.String())
	if *transportBin != "" {
		r.RunChild("transport", *transportBin)
	}
	if *raceQBin != "" {
		r.RunChild("race-queue", *raceQBin, "-race-pass")
	}
	if *raceTBin != "" {
		r.RunChild("race-transport", *raceTBin, "-race-pass")
	}
	r.Assume("sequentially consistent interleavings at synchronisation operations; unsynchronised accesses (data races) are invisible to a cooperative scheduler and are looked for by the separate free-running -race pass over the same program bodies (children race-queue / race-transport): that pass observes the schedules the Go runtime happens to produce, so a reported race is a definite violation while silence is not a proof of absence")
	r.Finish()
}

// raceTwin (internal mode of the -race build) runs the programs of one shard free: real
// goroutines, real time scaled down by the programs' own short timers. The race detector
// writes its reports to stderr and the process carries on (GORACE halt_on_error=0).
func raceTwin(runs int) {
	var si, sn int
	fmt.Sscanf(*raceShard, "%d/%d", &si, &sn)
	if sn <= 0 {
		sn = 1
	}
	progs := programs(false)
	n := 0
	for k := 0; k < runs; k++ {
		for i, p := range progs {
			if len(p.Threads) < 2 || i%sn != si {
				continue
			}
			queueScenarioFree(p)()
			n++
		}
	}
	fmt.Println(n)
}

// racePassMain is the child mode of the -race build: it runs the shards as subprocesses of
// itself, parses the detector's reports and turns every race between two accesses made by
// repository code into a violation.
func racePassMain() {
	r := vk.New("C17", "model_checking")
	runs := 6
	if r.Thorough() {
		runs = 40
	}
	self, _ := os.Executable()
	shards := r.Workers
	var mu sync.Mutex
	total := 0
	r.Parallel(shards, func(i int) {
		reps, timedOut, err := vk.RaceExec(self, []string{"-race-runs", fmt.Sprint(runs), "-race-shard", fmt.Sprintf("%d/%d", i, shards)}, "hop.computer/hop", 10*time.Minute)
		mu.Lock()
		defer mu.Unlock()
		if timedOut {
			r.Cap(fmt.Sprintf("free-running shard %d did not end within 10 minutes", i))
		} else if err != nil {
			r.EngineError("free-running shard %d: %v", i, err)
		}
		for _, rr := range reps {
			if !rr.InRepo("hop.computer/hop") {
				r.AddInt("race_reports_outside_repository_code", 1)
				continue
			}
			r.Violation("race:"+rr.Key(), fmt.Sprintf("data race between %s and %s (free-running -race pass over the DeadlineChan programs)", rr.A, rr.B), map[string]any{"scenario": "race-queue", "report": rr.Text})
		}
		total++
	})
	np := 0
	for _, p := range programs(false) {
		if len(p.Threads) >= 2 {
			np++
		}
	}
	r.EvalN(int64(np * runs))
	r.Set("race_pass_runs_per_program", runs)
	r.Set("race_pass_programs", np)
	r.Distinct("race-pass-queue")
	r.Set("race_pass_exhaustive", false)
	r.SetRule(fmt.Sprintf("free-running -race pass: the %d DeadlineChan programs with at least two threads, the unmodified common package built with the race detector, real goroutines, %d runs each; every detector report whose two accesses are both in repository code is a violation. Supplementary to the scheduler-controlled exploration (which cannot see unsynchronised accesses); not exhaustive.", np, runs))
	r.Finish()
}

// queueScenarioFree is the same body with real time scaled: the environment closes after 30 ms.
func queueScenarioFree(p program) func() {
	return func() {
		q := common.NewDeadlineChan[int](p.Cap)
		var wg vsync.WaitGroup
		for _, ops := range p.Threads {
			ops := ops
			wg.Add(1)
			go func() {
				defer wg.Done()
				n := 0
				for _, o := range []byte(ops) {
					switch o {
					case 'S':
						n++
						q.Send(n)
					case 'R':
						q.Recv()
					case 'P':
						q.SetDeadline(time.Now().Add(-time.Second))
					case 'F':
						q.SetDeadline(time.Now().Add(2 * time.Millisecond))
					case 'Z':
						q.SetDeadline(time.Time{})
					case 'X':
						q.Cancel(errors.New("cancelled"))
					case 'C':
						q.Close()
					}
				}
			}()
		}
		time.Sleep(5 * time.Millisecond)
		q.Close()
		wg.Wait()
	}
}
