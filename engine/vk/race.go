package vk

import (
	"bytes"
	"context"
	"os"
	"os/exec"
	"sort"
	"strings"
	"time"
)

// RaceReport is one report of Go's race detector, reduced to the two conflicting accesses.
type RaceReport struct {
	A, B string // first frame inside the module (function + file:line) of each access
	Text string // the detector's report, verbatim
}

// Key identifies the racing pair independently of line numbers and of the order of the two accesses.
func (rr RaceReport) Key() string {
	f := func(s string) string {
		if i := strings.Index(s, " "); i >= 0 {
			s = s[:i]
		}
		return s
	}
	p := []string{f(rr.A), f(rr.B)}
	sort.Strings(p)
	return p[0] + "|" + p[1]
}

// InRepo reports whether both conflicting accesses were made by code of the repository proper
// (module packages other than the injected zzverif/... harness and engine packages). Only these
// are attributed to the code under test; anything else is the harness's own business.
func (rr RaceReport) InRepo(module string) bool {
	ok := func(s string) bool {
		return strings.HasPrefix(s, module+"/") && !strings.HasPrefix(s, module+"/zzverif/")
	}
	return ok(rr.A) && ok(rr.B)
}

// ParseRaceReports extracts the reports from a -race binary's stderr.
func ParseRaceReports(stderr, module string) []RaceReport {
	var out []RaceReport
	for _, blk := range strings.Split(stderr, "WARNING: DATA RACE")[1:] {
		if i := strings.Index(blk, "=================="); i >= 0 {
			blk = blk[:i]
		}
		// sections are separated by blank lines; the first two describe the conflicting accesses
		var acc []string
		for _, sec := range strings.Split(blk, "\n\n") {
			lines := strings.Split(strings.TrimSpace(sec), "\n")
			if len(lines) == 0 {
				continue
			}
			h := strings.TrimSpace(lines[0])
			if !(strings.HasPrefix(h, "Read at") || strings.HasPrefix(h, "Write at") || strings.HasPrefix(h, "Previous read at") || strings.HasPrefix(h, "Previous write at") ||
				strings.HasPrefix(h, "Atomic read at") || strings.HasPrefix(h, "Atomic write at") || strings.HasPrefix(h, "Previous atomic")) {
				continue
			}
			first := "?"
			for i := 1; i+1 < len(lines); i += 2 {
				fn := strings.TrimSpace(lines[i])
				if strings.HasPrefix(fn, module+"/") {
					loc := strings.TrimSpace(lines[i+1])
					if j := strings.Index(loc, " +0x"); j >= 0 {
						loc = loc[:j]
					}
					if j := strings.Index(fn, "("); j > 0 && strings.HasSuffix(fn, ")") && !strings.Contains(fn[j:], "*") {
						fn = fn[:j] // drop the argument list of plain functions
					}
					fn = strings.TrimSuffix(fn, "()")
					first = fn + " " + loc
					break
				}
			}
			acc = append(acc, first)
		}
		if len(acc) >= 2 {
			out = append(out, RaceReport{A: acc[0], B: acc[1], Text: "WARNING: DATA RACE" + blk})
		}
	}
	return out
}

// RaceExec runs a binary built with -race free (real goroutines, real time), lets the detector
// report without stopping the process, and returns what it reported. A run that does not end
// within the timeout is killed and reported as timedOut (the free-running pass is not an
// oracle for termination; the scheduler-controlled exploration is).
func RaceExec(bin string, args []string, module string, timeout time.Duration) (reports []RaceReport, timedOut bool, err error) {
	ctx, cancel := context.WithTimeout(context.Background(), timeout)
	defer cancel()
	cmd := exec.CommandContext(ctx, bin, args...)
	cmd.Env = append(os.Environ(), "GORACE=halt_on_error=0 exitcode=0 history_size=3")
	var eb bytes.Buffer
	cmd.Stderr = &eb
	cmd.Stdout = nil
	e := cmd.Run()
	reports = ParseRaceReports(eb.String(), module)
	if ctx.Err() != nil {
		return reports, true, nil
	}
	if e != nil {
		tail := eb.String()
		if len(tail) > 600 {
			tail = tail[len(tail)-600:]
		}
		return reports, false, &raceExecErr{e.Error() + ": " + tail}
	}
	return reports, false, nil
}

type raceExecErr struct{ s string }

func (e *raceExecErr) Error() string { return e.s }
