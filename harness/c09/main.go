// C09 — tubes are isolated from each other and from earlier tubes with the same id.
//
// Scheduler-controlled exploration (E3) of two real muxers (rewritten for the deterministic
// scheduler and virtual clock) over an in-memory link:
//
//	concurrent  several threads on both sides create reliable / unreliable tubes at once; every
//	            tube carries a marker unique to it; schedules explored up to a preemption bound
//	reuse       open / write / close / re-open histories on one identifier with every packet of
//	            the first K a choice point {deliver, drop, duplicate, delay 50 ms, delay 3 s}
//	unrel       unreliable message sizes around the frame and 16-bit limits, with and without
//	            packet faults
package main

import (
	"encoding/json"
	"flag"
	"fmt"
	"io"
	"os"
	"os/exec"
	"regexp"
	"sort"
	"strings"
	"sync"
	"time"

	"github.com/sirupsen/logrus"

	"hop.computer/hop/tubes"
	"hop.computer/hop/zzverif/tuberig"
	"hop.computer/hop/zzverif/vk"
	"hop.computer/hop/zzverif/vrt"
	"hop.computer/hop/zzverif/vsync"
	"hop.computer/hop/zzverif/vx"
)

var worker = flag.Bool("vx-worker", false, "internal")
var freeBin = flag.String("bin-free", "", "the same harness built without the scheduler rewrite (free-running confirmation runs)")
var freeProg = flag.String("free-prog", "", "internal: run one program free-running and print the result")

type prog struct {
	Kind string `json:"kind"` // concurrent | reuse | unrel | mixed | interleave
	// concurrent: one letter per creator thread, R = reliable, U = unreliable
	Client string `json:"client,omitempty"`
	Server string `json:"server,omitempty"`
	// reuse
	Unrel  bool `json:"unrel,omitempty"`  // the reused identifier belongs to an unreliable tube
	Gap    int  `json:"gap,omitempty"`    // ms between the first tube's closure and the second create
	WDelay int  `json:"wdelay,omitempty"` // ms the second tube waits before its first write
	Side   int  `json:"side,omitempty"`   // 0: the client opens the tubes, 1: the server does
	// unrel
	Sizes []int `json:"sizes,omitempty"`
	// faults: the first K packets of each direction are choice points (0 = faithful link)
	K int `json:"k,omitempty"`
}

func (p prog) String() string { b, _ := json.Marshal(p); return string(b) }

var faultNames = []string{"deliver", "drop", "duplicate", "delay 50ms", "delay 3s"}

var pktDebug = os.Getenv("VERIF_PKTS") != ""

var (
	mu          sync.Mutex // guards scenario bookkeeping; never held across a blocking call
	freeFails   []string
	freeOutcome string
)

func fail(format string, a ...any) {
	mu.Lock()
	freeFails = append(freeFails, fmt.Sprintf(format, a...))
	mu.Unlock()
	vrt.Fail(format, a...)
}

// marker is the byte string written on tube incarnation `name`: it is recognisable from any
// fragment of at least 4 bytes.
func marker(name string, n int) []byte {
	b := make([]byte, n)
	pat := "<" + name + ">"
	for i := range b {
		b[i] = pat[i%len(pat)]
	}
	return b
}

// pktKind names a packet by what it is rather than by its position in the run.
func pktKind(msg []byte) string {
	if len(msg) < 4 {
		return "short"
	}
	k := "ACK"
	switch {
	case msg[1]&1 != 0:
		k = "REQ"
	case msg[1]&2 != 0:
		k = "RESP"
	case msg[1]&0x10 != 0:
		k = "FIN"
	case msg[2] != 0 || msg[3] != 0:
		k = "DATA"
	}
	if msg[1]&4 == 0 {
		k = "u" + k
	}
	return k
}

var faultRe = regexp.MustCompile(`faults \[([^\]]*)\]`)

// faultKey summarises the faults named in a failure message for the violation key: the kinds of
// packets that arrived 3 s late if there are any (the late packet is then the cause), else the
// whole list without packet positions.
func faultKey(what string) string {
	m := faultRe.FindStringSubmatch(what)
	if m == nil || m[1] == "" {
		return "none"
	}
	var late, all []string
	for _, f := range strings.Fields(strings.ReplaceAll(strings.ReplaceAll(m[1], "delay 3s", "delay3s"), "delay 50ms", "delay50ms")) {
		parts := strings.Split(f, ":")
		if len(parts) != 3 {
			continue
		}
		d := parts[0][:1] + ":" + parts[1] + ":" + parts[2]
		all = append(all, d)
		if parts[2] == "delay3s" {
			late = append(late, "late:"+parts[0][:1]+":"+parts[1])
		}
	}
	if len(late) > 0 {
		all = late
	}
	sort.Strings(all)
	return strings.Join(all, ",")
}

type rig struct {
	m      *tuberig.Muxers
	p      prog
	faults []string
}

func (g *rig) faultList() string { mu.Lock(); defer mu.Unlock(); return fmt.Sprint(g.faults) }

func newRig(p prog) *rig {
	g := &rig{m: tuberig.NewMuxers(0), p: p}
	t0 := vrt.Now()
	mk := func(dir string, peer *tuberig.MemConn) tuberig.Filter {
		return func(_ string, n int, msg []byte) [][]byte {
			if pktDebug && len(msg) >= 12 {
				fmt.Printf("  [%v] pkt %s#%d id=%d flags=%02x len=%d ack=%d frame=%d\n", vrt.Since(t0), dir, n, msg[0], msg[1], int(msg[2])<<8|int(msg[3]), uint32(msg[4])<<24|uint32(msg[5])<<16|uint32(msg[6])<<8|uint32(msg[7]), uint32(msg[8])<<24|uint32(msg[9])<<16|uint32(msg[10])<<8|uint32(msg[11]))
			}
			if n >= p.K {
				return nil
			}
			c := vrt.Choose(len(faultNames), fmt.Sprintf("pkt %s#%d", dir, n))
			if c != 0 {
				mu.Lock()
				g.faults = append(g.faults, fmt.Sprintf("%s#%d:%s:%s", dir, n, pktKind(msg), faultNames[c]))
				mu.Unlock()
			}
			switch c {
			case 1:
				return [][]byte{}
			case 2:
				return [][]byte{msg, msg}
			case 3, 4:
				d := 50 * time.Millisecond
				if c == 4 {
					d = 3 * time.Second
				}
				cp := append([]byte{}, msg...)
				vrt.AfterFunc(d, func() { peer.Inject(cp) })
				return [][]byte{}
			}
			return nil
		}
	}
	g.m.CConn.SetFilter(mk("a", g.m.SConn))
	g.m.SConn.SetFilter(mk("b", g.m.CConn))
	return g
}

func (g *rig) mux(side int) *tubes.Muxer {
	if side == 0 {
		return g.m.Client
	}
	return g.m.Server
}

// stop stops both muxers and reports tubes still waiting in an accept queue.
func (g *rig) stop(expectLeft bool) {
	var sw vsync.WaitGroup
	for _, mx := range []*tubes.Muxer{g.m.Server, g.m.Client} {
		mx := mx
		sw.Add(1)
		vrt.Go(func() { defer sw.Done(); mx.Stop() })
	}
	sw.Wait()
	for side := 0; side < 2; side++ {
		for {
			t, err := g.mux(side).Accept()
			if err != nil {
				break
			}
			if !expectLeft {
				fail("side %d: after everything opened by the peer had been accepted once, the accept queue still held tube id=%d reliable=%v type=%d: a tube was offered more than once (faults %v)", side, t.GetID(), t.IsReliable(), t.Type(), g.faultList())
			}
		}
	}
}

type tubeDesc struct {
	Side int
	Rel  bool
	ID   byte
	Type tubes.TubeType
	Name string
}

// ---- concurrent creation ----

func runConcurrent(p prog) {
	g := newRig(p)
	var created []tubeDesc
	var wg vsync.WaitGroup
	creator := func(side, idx int, kind byte) {
		defer wg.Done()
		tt := tubes.TubeType(10 + side*10 + idx)
		name := fmt.Sprintf("s%d-%c%d", side, kind, idx)
		var t tubes.Tube
		var err error
		if kind == 'R' {
			t, err = g.mux(side).CreateReliableTube(tt)
		} else {
			t, err = g.mux(side).CreateUnreliableTube(tt)
		}
		if err != nil {
			fail("side %d: create %c tube: %v", side, kind, err)
			return
		}
		if t.Type() != tt || t.IsReliable() != (kind == 'R') {
			fail("side %d: created tube reports type %d reliable %v, asked for %d / %c", side, t.Type(), t.IsReliable(), tt, kind)
		}
		mu.Lock()
		created = append(created, tubeDesc{side, kind == 'R', t.GetID(), tt, name})
		mu.Unlock()
		if _, err := t.Write(marker(name, 24)); err != nil {
			fail("side %d: write on fresh tube %s: %v", side, name, err)
		}
	}
	var accepted []tubeDesc
	acceptor := func(side, n int) { // accepts the n tubes the peer opens and reads their markers
		defer wg.Done()
		var rw vsync.WaitGroup
		for i := 0; i < n; i++ {
			t, err := g.mux(side).Accept()
			if err != nil {
				fail("side %d: Accept %d of %d: %v", side, i+1, n, err)
				return
			}
			rw.Add(1)
			vrt.Go(func() {
				defer rw.Done()
				buf := make([]byte, 100)
				var got []byte
				if t.IsReliable() {
					if _, err := io.ReadFull(t, buf[:24]); err != nil {
						fail("side %d: read marker on accepted tube id=%d: %v", side, t.GetID(), err)
						return
					}
					got = buf[:24]
				} else {
					n, err := t.Read(buf)
					if err != nil {
						fail("side %d: read marker on accepted unreliable tube id=%d: %v", side, t.GetID(), err)
						return
					}
					got = buf[:n]
				}
				name := ""
				if e := strings.IndexByte(string(got), '>'); e > 1 {
					name = string(got[1:e])
				}
				if name == "" || len(got) != 24 || string(got) != string(marker(name, 24)) {
					fail("side %d: accepted tube id=%d reliable=%v delivered %q, not a whole marker", side, t.GetID(), t.IsReliable(), got)
					return
				}
				mu.Lock()
				accepted = append(accepted, tubeDesc{1 - side, t.IsReliable(), t.GetID(), t.Type(), name})
				mu.Unlock()
			})
		}
		rw.Wait()
	}
	wg.Add(len(p.Client) + len(p.Server) + 2)
	for i := range p.Client {
		i := i
		vrt.Go(func() { creator(0, i, p.Client[i]) })
	}
	for i := range p.Server {
		i := i
		vrt.Go(func() { creator(1, i, p.Server[i]) })
	}
	vrt.Go(func() { acceptor(1, len(p.Client)) })
	vrt.Go(func() { acceptor(0, len(p.Server)) })
	wg.Wait()
	// oracle
	key := func(d tubeDesc) string { return fmt.Sprintf("side%d rel=%v id=%d", d.Side, d.Rel, d.ID) }
	sort.Slice(created, func(i, j int) bool { return created[i].Name < created[j].Name })
	sort.Slice(accepted, func(i, j int) bool { return accepted[i].Name < accepted[j].Name })
	seen := map[string]string{}
	for _, d := range created {
		if o, dup := seen[key(d)]; dup {
			fail("tubes %s and %s, created concurrently on side %d, got the same identifier %d (reliable=%v)", o, d.Name, d.Side, d.ID, d.Rel)
		}
		seen[key(d)] = d.Name
		if int(d.ID)%2 != 1-d.Side {
			fail("tube %s created on side %d got identifier %d: wrong parity", d.Name, d.Side, d.ID)
		}
	}
	if len(accepted) == len(created) {
		for i := range created {
			if created[i] != accepted[i] {
				fail("tube %s was created as %+v but its marker arrived on an accepted tube %+v", created[i].Name, created[i], accepted[i])
			}
		}
	} else if len(freeFailsSnapshot()) == 0 {
		fail("%d tubes created, %d accepted with a marker", len(created), len(accepted))
	}
	var ids []string
	for _, d := range created {
		ids = append(ids, fmt.Sprintf("%s=%d", d.Name, d.ID))
	}
	outcome(strings.Join(ids, " "))
	g.stop(false)
}

func freeFailsSnapshot() []string {
	mu.Lock()
	defer mu.Unlock()
	return append([]string{}, freeFails...)
}

func outcome(s string) {
	vrt.Outcome("%s", s)
	mu.Lock()
	freeOutcome = s
	mu.Unlock()
}

// ---- two tubes, interleaved multi-frame streams ----

// runInterleave: one side opens two reliable tubes and writes, alternating between them, four
// 16-byte chunks on each (every chunk names its tube and its position, so every frame of the run
// has different bytes); the other side accepts both and reads each to the end. With packet
// faults (p.K) frames of one tube are parked out of order while frames of the other tube keep
// arriving. Oracle: what is read from a tube is at every moment a prefix of what was written on
// that tube, and complete in the end.
func runInterleave(p prog) {
	g := newRig(p)
	opener, other := g.mux(p.Side), g.mux(1-p.Side)
	const chunks = 4
	want := map[byte]string{}
	var wg vsync.WaitGroup
	var ts [2]tubes.Tube
	for i := range ts {
		t, err := opener.CreateReliableTube(tubes.TubeType(40 + i))
		if err != nil {
			fail("create tube %d: %v (faults %v)", i, err, g.faultList())
			g.stop(true)
			return
		}
		ts[i] = t
		for c := 0; c < chunks; c++ {
			want[t.GetID()] += string(marker(fmt.Sprintf("t%d.%d", i, c), 16))
		}
	}
	wg.Add(1)
	vrt.Go(func() { // writer: alternates between the tubes, then closes both
		defer wg.Done()
		for c := 0; c < chunks; c++ {
			for i, t := range ts {
				if _, err := t.Write(marker(fmt.Sprintf("t%d.%d", i, c), 16)); err != nil {
					fail("write on tube %d: %v (faults %v)", i, err, g.faultList())
					return
				}
			}
		}
		for _, t := range ts {
			t.Close()
		}
	})
	for i := 0; i < 2; i++ {
		wg.Add(1)
		vrt.Go(func() { // acceptor: one reader per offered tube
			defer wg.Done()
			t, err := other.Accept()
			if err != nil {
				fail("accept: %v (faults %v)", err, g.faultList())
				return
			}
			w := want[t.GetID()]
			got := ""
			buf := make([]byte, 64)
			t.SetReadDeadline(vrt.Now().Add(150 * time.Second))
			for {
				n, err := t.Read(buf)
				got += string(buf[:n])
				if !strings.HasPrefix(w, got) {
					fail("tube id %d delivered %q; what was written on it is %q: bytes of another tube or frame (faults %v)", t.GetID(), got, w, g.faultList())
					break
				}
				if err != nil {
					if err != io.EOF || got != w {
						fail("tube id %d: read ended with %v after %d of %d bytes although the link has been faultless since the first packets (faults %v)", t.GetID(), err, len(got), len(w), g.faultList())
					}
					break
				}
			}
			t.Close()
		})
	}
	wg.Wait()
	outcome("interleave done")
	g.stop(true)
}

// ---- identifier reuse ----

func runReuse(p prog) {
	g := newRig(p)
	opener, other := g.mux(p.Side), g.mux(1-p.Side)
	var wg vsync.WaitGroup
	var ids [2]int
	ids[0], ids[1] = -1, -1
	create := func(tt tubes.TubeType) (tubes.Tube, error) {
		if p.Unrel {
			return opener.CreateUnreliableTube(tt)
		}
		return opener.CreateReliableTube(tt)
	}
	var done [2]bool
	// watchdog: Accept has no timeout, so an incarnation that is never offered would show as a bare
	// deadlock; name it (with the faults) and stop the muxers so that everything returns
	finished := false
	aborted := false // set by the watchdog: what fails afterwards is a consequence of its stop
	gfail := fail
	fail := func(format string, a ...any) {
		mu.Lock()
		ab := aborted
		mu.Unlock()
		if !ab {
			gfail(format, a...)
		}
	}
	vrt.Go(func() {
		vrt.Sleep(180 * time.Second)
		mu.Lock()
		fin, d := finished, done
		mu.Unlock()
		if fin {
			return
		}
		fail("after 180 virtual seconds the acceptor has finished %v of the two incarnations: a remotely opened tube was never offered to it (or never delivered / closed) (faults %v)", d, g.faultList())
		mu.Lock()
		aborted = true
		mu.Unlock()
		g.m.Client.Stop()
		g.m.Server.Stop()
	})
	wg.Add(2)
	vrt.Go(func() { // opener: two incarnations, one after the other
		defer wg.Done()
		for inc := 0; inc < 2; inc++ {
			name := fmt.Sprintf("inc%d", inc)
			t, err := create(tubes.TubeType(30 + inc))
			if err != nil {
				fail("create %s: %v (faults %v)", name, err, g.faultList())
				return
			}
			mu.Lock()
			ids[inc] = int(t.GetID())
			mu.Unlock()
			if inc == 1 && p.WDelay > 0 {
				vrt.Sleep(time.Duration(p.WDelay) * time.Millisecond)
			}
			for k := 0; k < 2; k++ {
				if _, err := t.Write(marker(name, 16)); err != nil {
					fail("write on %s: %v (faults %v)", name, err, g.faultList())
					return
				}
			}
			if !p.Unrel {
				// the acceptor answers with its own marker; reading it proves both directions
				buf := make([]byte, 16)
				t.SetReadDeadline(vrt.Now().Add(60 * time.Second))
				if _, err := io.ReadFull(t, buf); err != nil {
					fail("%s: reading the acceptor's answer: %v (faults %v)", name, err, g.faultList())
				} else if string(buf) != string(marker("ans"+name, 16)) {
					fail("%s read %q from its peer, which wrote %q: bytes of another tube incarnation (faults %v)", name, buf, marker("ans"+name, 16), g.faultList())
				}
			} else {
				vrt.Sleep(20 * time.Millisecond)
			}
			t.Close()
			t.WaitForClose()
			if p.Gap > 0 {
				vrt.Sleep(time.Duration(p.Gap) * time.Millisecond)
			}
		}
	})
	vrt.Go(func() { // acceptor
		defer wg.Done()
		for inc := 0; inc < 2; inc++ {
			name := fmt.Sprintf("inc%d", inc)
			t, err := other.Accept()
			if err != nil {
				fail("accept %s: %v (faults %v)", name, err, g.faultList())
				return
			}
			if t.Type() != tubes.TubeType(30+inc) || t.IsReliable() == p.Unrel {
				fail("accepted tube number %d has type %d reliable=%v; the opener chose type %d reliable=%v (faults %v)", inc+1, t.Type(), t.IsReliable(), 30+inc, !p.Unrel, g.faultList())
			}
			want := marker(name, 16)
			if !p.Unrel {
				buf := make([]byte, 32)
				t.SetReadDeadline(vrt.Now().Add(60 * time.Second))
				n, err := io.ReadFull(t, buf)
				if string(buf[:n]) != string(append(append([]byte{}, want...), want...))[:n] {
					fail("tube incarnation %s (id %d) delivered %q; only %q was written on it: bytes of another tube (faults %v)", name, t.GetID(), buf[:n], want, g.faultList())
				} else if err != nil {
					fail("%s: read %d of 32 bytes: %v (faults %v)", name, n, err, g.faultList())
				}
				t.Write(marker("ans"+name, 16))
				// wait for the opener's FIN
				t.SetReadDeadline(vrt.Now().Add(60 * time.Second))
				for {
					n, err := t.Read(buf)
					if n == 0 && err == nil {
						continue // a wake-up without data: permitted by io.Reader
					}
					if n > 0 {
						fail("tube incarnation %s delivered %q after its 32 bytes (faults %v)", name, buf[:n], g.faultList())
					} else if err != io.EOF {
						fail("%s: waiting for end-of-stream: %v (faults %v)", name, err, g.faultList())
					}
					break
				}
				t.Close()
			} else {
				// whole messages of this incarnation only, until the FIN or a 2 s silence
				buf := make([]byte, 100)
				for {
					t.SetReadDeadline(vrt.Now().Add(2 * time.Second))
					n, err := t.Read(buf)
					if err != nil {
						break
					}
					if string(buf[:n]) != string(want) {
						fail("unreliable tube incarnation %s (id %d) delivered message %q; only %q was written on it: bytes of another tube (faults %v)", name, t.GetID(), buf[:n], want, g.faultList())
					}
				}
				t.Close()
			}
			mu.Lock()
			done[inc] = true
			mu.Unlock()
		}
	})
	wg.Wait()
	mu.Lock()
	finished = true
	o := fmt.Sprintf("ids=%v done=%v", ids, done)
	mu.Unlock()
	outcome(o)
	g.stop(false)
}

// ---- same number in both identifier spaces ----

// runMixed: a reliable and an unreliable tube with the same number are open; one of them is closed
// and reaped; the survivor must keep working, a new tube of the survivor's kind must get another
// number, and traffic must stay apart.
func runMixed(p prog) {
	g := newRig(p)
	opener, other := g.mux(p.Side), g.mux(1-p.Side)
	rt, err1 := opener.CreateReliableTube(50)
	ut, err2 := opener.CreateUnreliableTube(51)
	if err1 != nil || err2 != nil {
		fail("create: %v %v", err1, err2)
		return
	}
	var art, aut tubes.Tube
	for i := 0; i < 2; i++ {
		t, err := other.Accept()
		if err != nil {
			fail("accept: %v", err)
			return
		}
		if t.IsReliable() {
			art = t
		} else {
			aut = t
		}
	}
	if art == nil || aut == nil || art.Type() != 50 || aut.Type() != 51 || art.GetID() != rt.GetID() || aut.GetID() != ut.GetID() {
		fail("opened reliable id=%d type=50 and unreliable id=%d type=51; the peer was offered %v / %v", rt.GetID(), ut.GetID(), desc(art), desc(aut))
		return
	}
	expect := func(t tubes.Tube, who, name string) {
		buf := make([]byte, 64)
		want := marker(name, 16)
		t.SetReadDeadline(vrt.Now().Add(10 * time.Second))
		var got []byte
		if t.IsReliable() {
			n, err := io.ReadFull(t, buf[:16])
			got = buf[:n]
			if err != nil {
				fail("%s: expected %q, read %q and %v: the tube no longer delivers what is written on it", who, want, got, err)
				return
			}
		} else {
			n, err := t.Read(buf)
			got = buf[:n]
			if err != nil {
				fail("%s: expected message %q, got %v: the tube no longer delivers what is written on it", who, want, err)
				return
			}
		}
		if string(got) != string(want) {
			fail("%s delivered %q; %q was written on it: bytes of another tube", who, got, want)
		}
	}
	rt.Write(marker("r1", 16))
	ut.Write(marker("u1", 16))
	expect(art, "reliable tube", "r1")
	expect(aut, "unreliable tube", "u1")
	var victim, avictim, surv, asurv tubes.Tube = rt, art, ut, aut
	if p.Unrel {
		victim, avictim, surv, asurv = ut, aut, rt, art
	}
	var cw vsync.WaitGroup
	cw.Add(2)
	vrt.Go(func() { defer cw.Done(); victim.Close(); victim.WaitForClose() })
	vrt.Go(func() {
		defer cw.Done()
		if avictim.IsReliable() {
			buf := make([]byte, 8)
			avictim.SetReadDeadline(vrt.Now().Add(10 * time.Second))
			avictim.Read(buf) // the FIN
		} else {
			vrt.Sleep(50 * time.Millisecond)
		}
		avictim.Close()
		avictim.WaitForClose()
	})
	cw.Wait()
	vrt.Sleep(time.Duration(p.Gap) * time.Millisecond)
	surv.Write(marker("s2", 16))
	expect(asurv, "surviving tube (same number as the closed tube of the other kind)", "s2")
	var nt tubes.Tube
	var err error
	if surv.IsReliable() {
		nt, err = opener.CreateReliableTube(52)
	} else {
		nt, err = opener.CreateUnreliableTube(52)
	}
	if err != nil {
		fail("create third tube: %v", err)
		return
	}
	if nt.GetID() == surv.GetID() {
		fail("a new tube got identifier %d, which a live tube of the same kind still holds", nt.GetID())
	}
	ant, err := other.Accept()
	if err != nil {
		fail("accept third tube: %v", err)
		return
	}
	if ant.Type() != 52 || ant.IsReliable() != surv.IsReliable() || ant.GetID() != nt.GetID() {
		fail("third tube opened as id=%d type=52 reliable=%v, offered as %s", nt.GetID(), surv.IsReliable(), desc(ant))
	}
	nt.Write(marker("n1", 16))
	surv.Write(marker("s3", 16))
	expect(ant, "new tube", "n1")
	expect(asurv, "surviving tube", "s3")
	outcome(fmt.Sprintf("ids r=%d u=%d new=%d", rt.GetID(), ut.GetID(), nt.GetID()))
	g.stop(false)
}

func desc(t tubes.Tube) string {
	if t == nil {
		return "nothing"
	}
	return fmt.Sprintf("id=%d type=%d reliable=%v", t.GetID(), t.Type(), t.IsReliable())
}

// ---- unreliable message sizes ----

func runUnrel(p prog) {
	g := newRig(p)
	ct, err := g.m.Client.CreateUnreliableTube(40)
	if err != nil {
		fail("create: %v", err)
		return
	}
	at, err := g.m.Server.Accept()
	if err != nil {
		fail("accept: %v", err)
		return
	}
	var wg vsync.WaitGroup
	var sent [][]byte
	wg.Add(2)
	vrt.Go(func() {
		defer wg.Done()
		for i, sz := range p.Sizes {
			b := marker(fmt.Sprintf("m%d", i), sz)
			n, err := ct.Write(b)
			if err == nil {
				if n != sz {
					fail("Write of a %d-byte message returned %d, nil", sz, n)
				}
				mu.Lock()
				sent = append(sent, b)
				mu.Unlock()
			}
		}
		vrt.Sleep(100 * time.Millisecond)
		ct.Close()
	})
	var got [][]byte
	vrt.Go(func() {
		defer wg.Done()
		buf := make([]byte, 200000)
		for {
			at.SetReadDeadline(vrt.Now().Add(5 * time.Second))
			n, err := at.Read(buf)
			if err != nil {
				return
			}
			mu.Lock()
			got = append(got, append([]byte{}, buf[:n]...))
			mu.Unlock()
		}
	})
	wg.Wait()
	// every delivered message is exactly one accepted write; on a faithful link: all of them, in order
	used := make([]int, len(sent))
	for gi, m := range got {
		ok := false
		for i, s := range sent {
			if string(s) == string(m) {
				used[i]++
				ok = true
				break
			}
		}
		if !ok {
			d := m
			if len(d) > 24 {
				d = d[:24]
			}
			fail("message %d read from the unreliable tube (%d bytes, starts %q) is not one of the messages written on it (accepted write sizes %v): fragment, merge, phantom or altered bytes (faults %v)", gi, len(m), d, sizes(sent), g.faultList())
		}
	}
	if p.K == 0 {
		if len(got) != len(sent) {
			fail("faithful link: %d messages written and accepted (sizes %v), %d delivered (sizes %v)", len(sent), sizes(sent), len(got), sizes(got))
		}
	} else {
		for i, u := range used {
			if u > 1+strings.Count(g.faultList(), "duplicate") {
				fail("message %d delivered %d times (faults %v)", i, u, g.faultList())
			}
		}
	}
	outcome(fmt.Sprintf("sent=%v got=%v", sizes(sent), sizes(got)))
	at.Close()
	g.stop(false)
}

func sizes(ms [][]byte) []int {
	out := make([]int, len(ms))
	for i, m := range ms {
		out[i] = len(m)
	}
	return out
}

func scenario(arg string) *vx.Scenario {
	var p prog
	if err := json.Unmarshal([]byte(arg), &p); err != nil {
		panic(err)
	}
	return &vx.Scenario{Name: "iso:" + arg, Cfg: vrt.Config{MaxSteps: 1000000, MaxTime: 30 * time.Minute, Settle: 5 * time.Second},
		Judge: func(r *vrt.Result) []string {
			var ps []string
			if r.Deadlock != "" {
				ps = append(ps, "deadlock: "+r.Deadlock)
			}
			ps = append(ps, r.Panics...)
			ps = append(ps, r.Failures...)
			return ps
		},
		Run: func() {
			switch p.Kind {
			case "concurrent":
				runConcurrent(p)
			case "reuse":
				runReuse(p)
			case "unrel":
				runUnrel(p)
			case "mixed":
				runMixed(p)
			case "interleave":
				runInterleave(p)
			}
		}}
}

func freeRun(bin, arg string) (fails []string, outcome string, err error) {
	out, err := exec.Command(bin, "-free-prog", arg).Output()
	if err != nil {
		return nil, "", fmt.Errorf("free-running execution ended abnormally: %v", err)
	}
	var res struct {
		Failures []string `json:"failures"`
		Outcome  string   `json:"outcome"`
	}
	if e := json.Unmarshal(out, &res); e != nil {
		return nil, "", fmt.Errorf("free-running execution: unreadable result: %v", e)
	}
	return res.Failures, res.Outcome, nil
}

func classify(w string) string {
	for _, k := range []string{"deadlock", "panic", "never offered", "no longer delivers", "still holds", "same identifier", "wrong parity", "offered more than once", "bytes of another tube", "not one of the messages written", "delivered %d times", "created as", "tubes created", "the opener chose", "faithful link", "after its 32 bytes", "Write of a", "Accept", "accept", "create", "read", "write"} {
		if strings.Contains(w, k) {
			return strings.ReplaceAll(k, " ", "-")
		}
	}
	return "other"
}

func (p prog) key() string {
	switch p.Kind {
	case "concurrent":
		return fmt.Sprintf("concurrent:%s/%s", p.Client, p.Server)
	case "reuse":
		return fmt.Sprintf("reuse:unrel=%v,side=%d,gap=%d,wdelay=%d", p.Unrel, p.Side, p.Gap, p.WDelay)
	case "mixed":
		return fmt.Sprintf("mixed:close-unrel=%v,side=%d,gap=%d", p.Unrel, p.Side, p.Gap)
	case "interleave":
		return fmt.Sprintf("interleave:side=%d", p.Side)
	}
	return fmt.Sprintf("unrel:sizes=%v", p.Sizes)
}

type phase struct {
	name   string
	progs  []prog
	bounds vx.Bounds
	total  int
	window int
}

func phases(thorough bool) []phase {
	var conc, concSmall []prog
	for _, c := range []string{"R", "RR", "RU", "UU", "RRU"} {
		for _, s := range []string{"", "R", "U", "RU"} {
			p := prog{Kind: "concurrent", Client: c, Server: s}
			conc = append(conc, p)
			if len(c)+len(s) <= 3 {
				concSmall = append(concSmall, p)
			}
		}
	}
	var reuse0, reuseK []prog
	for _, unrel := range []bool{false, true} {
		for _, side := range []int{0, 1} {
			for _, gap := range []int{0, 2000} {
				for _, wd := range []int{0, 5000} {
					reuse0 = append(reuse0, prog{Kind: "reuse", Unrel: unrel, Side: side, Gap: gap, WDelay: wd})
					if side == 0 || thorough {
						reuseK = append(reuseK, prog{Kind: "reuse", Unrel: unrel, Side: side, Gap: gap, WDelay: wd, K: 8})
					}
				}
			}
		}
	}
	var unrel0, unrelK []prog
	for _, sz := range [][]int{{0}, {1}, {1, 2, 3}, {32767}, {32768}, {32769}, {65535}, {65536}, {65537}, {98305}, {1, 65536, 2}, {5, 0, 5}, {32768, 32768}} {
		unrel0 = append(unrel0, prog{Kind: "unrel", Sizes: sz})
	}
	for _, sz := range [][]int{{1, 2, 3}, {5, 0, 5}, {32768, 7}} {
		unrelK = append(unrelK, prog{Kind: "unrel", Sizes: sz, K: 6})
	}
	var mixed []prog
	for _, unrel := range []bool{false, true} {
		for _, side := range []int{0, 1} {
			for _, gap := range []int{0, 2000} {
				mixed = append(mixed, prog{Kind: "mixed", Unrel: unrel, Side: side, Gap: gap})
			}
		}
	}
	inter0 := []prog{{Kind: "interleave", Side: 0}, {Kind: "interleave", Side: 1}}
	interK := []prog{{Kind: "interleave", Side: 0, K: 12}, {Kind: "interleave", Side: 1, K: 12}}
	det := append(append(append(append(append([]prog{}, conc...), reuse0...), unrel0...), mixed...), inter0...)
	ph := []phase{{"all programs, faithful link, default schedule", det, vx.Bounds{}, 0, 0}}
	if !thorough {
		ph = append(ph,
			phase{"concurrent creation, one scheduling deviation of any kind", conc, vx.Bounds{1, 1, 1, 1, 0}, 1, 0},
			phase{"concurrent creation (<=3 tubes), two scheduling deviations among the first 60 choice points", concSmall, vx.Bounds{2, 2, 2, 1, 0}, 2, 60},
			phase{"identifier reuse, one packet fault among the first 8 packets of each direction", reuseK, vx.Bounds{0, 0, 0, 0, 1}, 1, 0},
			phase{"two reliable tubes with interleaved multi-frame streams, one packet fault among the first 12 packets of each direction", interK, vx.Bounds{0, 0, 0, 0, 1}, 1, 0},
			phase{"unreliable messages, two packet faults among the first 6 packets of each direction", unrelK, vx.Bounds{0, 0, 0, 0, 2}, 2, 0})
	} else {
		// the fault phases first: the soft budget then cuts the (much larger) scheduling phases
		ph = append(ph,
			phase{"two reliable tubes with interleaved multi-frame streams, two packet faults among the first 12 packets of each direction", interK, vx.Bounds{0, 0, 0, 0, 2}, 2, 0},
			phase{"identifier reuse, two packet faults among the first 8 packets of each direction", reuseK, vx.Bounds{0, 0, 0, 0, 2}, 2, 0},
			phase{"unreliable messages, three packet faults among the first 6 packets of each direction", unrelK, vx.Bounds{0, 0, 0, 0, 3}, 3, 0},
			phase{"identifier reuse, one packet fault and one scheduling deviation", reuseK, vx.Bounds{1, 1, 1, 0, 1}, 2, 600},
			phase{"concurrent creation, two scheduling deviations among the first 200 choice points", conc, vx.Bounds{2, 2, 2, 1, 0}, 2, 200},
			phase{"concurrent creation (<=3 tubes), three scheduling deviations among the first 40 choice points", concSmall, vx.Bounds{3, 3, 3, 1, 0}, 3, 40})
	}
	return ph
}

func main() {
	flag.Parse()
	logrus.SetOutput(io.Discard)
	vx.Registry["iso"] = scenario
	if *worker {
		vx.WorkerMain()
		return
	}
	if *freeProg != "" {
		scenario(*freeProg).Run()
		json.NewEncoder(os.Stdout).Encode(map[string]any{"failures": freeFails, "outcome": freeOutcome})
		return
	}
	r := vk.New("C09", "model_checking")
	if a := os.Getenv("VERIF_PROG"); a != "" {
		sc := scenario(a)
		sc.Cfg.Trace = os.Getenv("VERIF_TRACE") != ""
		res := vrt.Run(sc.Cfg, nil, sc.Run)
		fmt.Printf("program %s: points=%d steps=%d threads=%d vtime=%v outcome=%s deadlock=%q panics=%v failures=%v horizon=%q\n", a, len(res.Points), res.Steps, res.Threads, res.EndTime, res.Outcome, res.Deadlock, res.Panics, res.Failures, res.Horizon)
		for _, l := range res.Log {
			fmt.Println("  ", l)
		}
		r.Finish()
	}
	if r.ReplayFile != "" {
		var rc struct {
			Arg     string `json:"arg"`
			Choices []int  `json:"choices"`
		}
		if err := r.LoadReplay(&rc); err != nil {
			r.EngineError("replay: %v", err)
			r.Finish()
		}
		sc := scenario(rc.Arg)
		sc.Cfg.Trace = os.Getenv("VERIF_TRACE") != ""
		ps, stable, res := vx.Replay(sc, rc.Choices)
		for _, l := range res.Log {
			fmt.Println("  ", l)
		}
		fmt.Println("stable:", stable, "virtual end:", res.EndTime, "outcome:", res.Outcome)
		for _, p := range ps {
			r.Violation("replayed:"+classify(p), p, rc)
		}
		r.Finish()
	}
	var execs, points int64
	traces := 0
	outcomes := map[string]bool{}
	for _, ph := range phases(r.Thorough()) {
		if f := os.Getenv("VERIF_PHASE"); f != "" && !strings.Contains(ph.name, f) {
			continue // debugging aid: run selected phases only
		}
		e := &vx.Explorer{Bounds: ph.bounds, Total: ph.total, Window: ph.window, MaxExec: 3000000, Deadline: r.Deadline}
		var phExec int64
		for i, p := range ph.progs {
			if r.Expired() {
				r.Cap(fmt.Sprintf("budget expired in phase %q after %d of %d programs", ph.name, i, len(ph.progs)))
				break
			}
			st := e.Explore("iso", p.String(), r.Workers)
			execs += st.Executions
			phExec += st.Executions
			points += st.Points
			traces += st.NTraces
			for o := range st.Outcomes {
				outcomes[p.Kind+o] = true
			}
			if st.Capped {
				r.Cap("execution cap / budget hit for program " + p.String() + " in phase " + ph.name)
			}
			if st.Horizons > 0 {
				r.AddInt("executions_hitting_horizon", st.Horizons)
			}
			r.Distinct(ph.name + p.String())
			for _, pr := range st.Problems {
				if strings.HasPrefix(pr.What, "ENGINE:") {
					r.EngineError("%s: %s", p, pr.What)
					continue
				}
				ps, stable, _ := vx.Replay(scenario(p.String()), pr.Choices)
				if !stable || len(ps) == 0 {
					r.EngineError("violation did not reproduce deterministically for %s: %s", p, pr.What)
					continue
				}
				confirm := ""
				if *freeBin != "" && p.K == 0 && ph.total == 0 {
					if fails, out, err := freeRun(*freeBin, p.String()); err != nil {
						confirm = " | free-running confirmation: " + err.Error()
					} else if len(fails) > 0 {
						confirm = " | reproduced free-running (unmodified tubes package, real goroutines and time): " + fails[0]
					} else {
						confirm = " | not reproduced free-running (outcome " + out + ")"
					}
				}
				r.Violation("iso:"+classify(pr.What)+":"+p.key()+":faults="+faultKey(pr.What), fmt.Sprintf("%s | program: %s | bounds %v | schedule: %d choices%s", pr.What, p, ph.bounds, len(pr.Choices), confirm), map[string]any{"arg": p.String(), "choices": pr.Choices})
			}
			if os.Getenv("VERIF_VERBOSE") != "" {
				fmt.Printf("phase %q prog %s exec=%d maxpoints=%d problems=%d outcomes=%v\n", ph.name, p, st.Executions, st.MaxPoints, len(st.Problems), len(st.Outcomes))
			}
		}
		r.SampleForce(map[string]any{"phase": ph.name, "programs": len(ph.progs), "bounds": ph.bounds.String(), "total_deviations": ph.total, "deviation_window": ph.window, "executions": phExec})
	}
	r.EvalN(execs)
	r.Graph(int64(traces), points, execs)
	r.Set("distinct_outcomes", len(outcomes))
	r.SetRule("two real muxers under the deterministic scheduler and virtual clock over an in-memory link. concurrent: 1..3 client threads and 0..2 server threads create reliable/unreliable tubes at once (20 thread mixes), each tube carries a 24-byte marker naming it, both sides accept and read; oracles: identifiers distinct per (side, reliability) and of the side's parity, every created tube is accepted exactly once by the peer with the identifier, type and reliability its opener chose and delivers exactly its own marker, nothing is left in an accept queue. reuse: one side opens a tube, both exchange markers, both close, the side opens a second tube (same identifier once the first was reaped), with gap 0/2 s before the re-open and 0/5 s before the second tube's first write, reliable and unreliable, client- and server-opened; every one of the first 8 packets of each direction is a choice point {deliver, drop, duplicate, delay 50 ms, delay 3 s}; oracle: each incarnation reads only bytes written on that incarnation, accept yields incarnations in order with the right type. interleave: one side opens two reliable tubes and writes four 16-byte chunks on each, alternating (every frame of the run has different bytes), the other side reads both to the end, every one of the first 12 packets of each direction a fault choice point; oracle: what a tube delivers is at every moment a prefix of what was written on that tube and complete in the end. mixed: a reliable and an unreliable tube with the same number; one is closed by both ends and reaped; the survivor must still deliver, a third tube of the survivor's kind must get another number and be offered once with its type, markers stay apart (8 variants). unrel: message sizes {0,1,32767,32768,32769,65535,65536,65537,98305} and sequences on an unreliable tube; oracle: a write is refused or its message is delivered whole; every delivered message equals one accepted write (no fragment, merge, phantom); on a faithful link all accepted writes are delivered once.")
	r.Assume("sequentially consistent interleavings at synchronisation points; virtual time; packet faults only among the first K packets per direction")
	r.Finish()
}
