// C03 — transport channel: authentic, at-most-once, complete, confidential.
// Two established sessions on one real server over simnet; the explorer runs every adversary
// event sequence up to a bound over a window of in-flight data packets and compares what the
// readers get with a reference stream model after every event; plus write sizes on a faithful
// network, a >448-packet counter jump, and a scan of everything that crossed the wire.
package main

import (
	"bytes"
	"flag"
	"fmt"
	"os"
	"os/exec"
	"strings"
	"sync"

	"hop.computer/hop/transport"
	"hop.computer/hop/zzverif/fix"
	"hop.computer/hop/zzverif/simnet"
	"hop.computer/hop/zzverif/vk"
)

const marker = "SECRET-PAYLOAD-MARKER-0123456789"

type event struct {
	K string `json:"k"`           // kind
	I int    `json:"i,omitempty"` // packet index within its class
	A int    `json:"a,omitempty"` // extra argument (region / length / body size)
}

func (e event) String() string { return fmt.Sprintf("%s(%d,%d)", e.K, e.I, e.A) }

var regions = []string{"type", "reserved", "session-id", "counter", "body", "tag"}

func regionOffset(reg int, pktLen int) int {
	switch reg {
	case 0:
		return 0
	case 1:
		return 2
	case 2:
		return 5
	case 3:
		return 15 // low byte of the counter
	case 4:
		return 16
	default:
		return pktLen - 1
	}
}

// world holds one execution.
type world struct {
	w        *fix.World
	srv      *fix.ServerEnd
	A, B     *fix.ClientEnd
	hA, hB   *transport.Handle
	c2s      []*simnet.Datagram // A's 4 in-flight client->server data packets
	s2c      []*simnet.Datagram // 2 server->client packets of session A
	bpk      []*simnet.Datagram // 2 client->server packets of session B
	sidA     transport.SessionID
	addrA    *simnetAddr
	written  map[string]map[string]bool // stream -> message -> written
	expect   map[string]map[string]bool // stream -> message -> genuine datagram delivered (so must be read)
	got      map[string]map[string]int  // stream -> message -> times read
	problems []string
}

type simnetAddr = struct{}

func msgName(stream string, i int) string { return fmt.Sprintf("%s|%s|msg-%d", marker, stream, i) }

func setup(std *fix.Std) (*world, error) {
	x := &world{w: fix.NewWorld(), written: map[string]map[string]bool{}, expect: map[string]map[string]bool{}, got: map[string]map[string]int{}}
	for _, s := range []string{"A.c2s", "A.s2c", "B.c2s", "B.s2c"} {
		x.written[s], x.expect[s], x.got[s] = map[string]bool{}, map[string]bool{}, map[string]int{}
	}
	var err error
	x.srv, err = x.w.StartServer(std.ServerConfig(false), std.ServerAdr)
	if err != nil {
		return nil, err
	}
	x.A = x.w.NewClient(std.ClientConfig(false), simnet.Addr("10.0.0.2", 4000), std.ServerAdr)
	x.A.Start()
	if err := x.w.Pump(nil); err != nil {
		return nil, err
	}
	x.B = x.w.NewClient(std.ClientConfig(false), simnet.Addr("10.0.0.3", 4001), std.ServerAdr)
	x.B.Start()
	if err := x.w.Pump(nil); err != nil {
		return nil, err
	}
	if !x.A.Completed() || !x.B.Completed() {
		return nil, fmt.Errorf("honest handshakes did not complete")
	}
	sa, _ := x.A.C.VerifSession()
	sb, _ := x.B.C.VerifSession()
	x.sidA = sa.ID
	for h := x.srv.Accept(); h != nil; h = x.srv.Accept() {
		switch h.VerifSession().ID {
		case sa.ID:
			x.hA = h
		case sb.ID:
			x.hB = h
		}
	}
	if x.hA == nil || x.hB == nil {
		return nil, fmt.Errorf("server did not offer both sessions")
	}
	// put the traffic in flight (nothing is delivered until an event says so)
	collect := func(n int) []*simnet.Datagram {
		var out []*simnet.Datagram
		for i := 0; i < n; i++ {
			out = append(out, x.w.Net.Pop())
		}
		return out
	}
	for i := 0; i < 4; i++ {
		m := msgName("A.c2s", i)
		x.written["A.c2s"][m] = true
		if err := x.A.C.WriteMsg([]byte(m)); err != nil {
			return nil, err
		}
	}
	x.c2s = collect(4)
	for i := 0; i < 2; i++ {
		m := msgName("A.s2c", i)
		x.written["A.s2c"][m] = true
		if err := x.hA.WriteMsg([]byte(m)); err != nil {
			return nil, err
		}
	}
	x.s2c = collect(2)
	for i := 0; i < 2; i++ {
		m := msgName("B.c2s", i)
		x.written["B.c2s"][m] = true
		if err := x.B.C.WriteMsg([]byte(m)); err != nil {
			return nil, err
		}
	}
	x.bpk = collect(2)
	for _, l := range [][]*simnet.Datagram{x.c2s, x.s2c, x.bpk} {
		for _, d := range l {
			if d == nil {
				return nil, fmt.Errorf("expected data packet was not produced")
			}
		}
	}
	return x, nil
}

func (x *world) close() { x.w.Close() }

// drain reads everything available on the three readers and checks it against the model.
func (x *world) drain(after string) {
	read := func(stream string, n func() int, rd func([]byte) (int, error)) {
		buf := make([]byte, 70000)
		for n() > 0 {
			k, err := rd(buf)
			if err != nil {
				x.problems = append(x.problems, fmt.Sprintf("after %s: read on %s failed although data was queued: %v", after, stream, err))
				return
			}
			m := string(buf[:k])
			if !x.written[stream][m] {
				x.problems = append(x.problems, fmt.Sprintf("after %s: reader of %s got %q which the authenticated peer never wrote on that session and direction", after, stream, clip(m)))
				continue
			}
			x.got[stream][m]++
			if x.got[stream][m] > 1 {
				x.problems = append(x.problems, fmt.Sprintf("after %s: message %q returned %d times on %s", after, clip(m), x.got[stream][m], stream))
			}
		}
	}
	read("A.c2s", x.hA.VerifRecvLen, x.hA.ReadMsg)
	read("B.c2s", x.hB.VerifRecvLen, x.hB.ReadMsg)
	if h := x.A.C.VerifHandle(); h != nil {
		read("A.s2c", h.VerifRecvLen, x.A.C.ReadMsg)
	}
	if h := x.B.C.VerifHandle(); h != nil {
		read("B.s2c", h.VerifRecvLen, x.B.C.ReadMsg)
	}
	// completeness w.r.t. genuine deliveries: forged traffic must not have disturbed anything
	for stream, ms := range x.expect {
		for m := range ms {
			if x.got[stream][m] == 0 {
				x.problems = append(x.problems, fmt.Sprintf("after %s: the genuine packet carrying %q was delivered unaltered on %s but the reader never got it", after, clip(m), stream))
				delete(ms, m) // report once
			}
		}
	}
	if x.hA.IsClosed() || x.hB.IsClosed() {
		x.problems = append(x.problems, fmt.Sprintf("after %s: a server-side session was closed although no authentic control message was sent", after))
	}
	if h := x.A.C.VerifHandle(); h != nil && h.IsClosed() {
		x.problems = append(x.problems, fmt.Sprintf("after %s: the client session was closed although no authentic control message was sent", after))
	}
}

func clip(s string) string {
	s = strings.TrimPrefix(s, marker+"|")
	if len(s) > 40 {
		return s[:40] + "…"
	}
	return s
}

func (x *world) apply(e event) error {
	srvAddr, aAddr := x.srv.Addr, x.A.Addr
	deliver := func(data []byte, toServer bool) error {
		if toServer {
			x.w.Net.Deliver(data, aAddr, srvAddr)
		} else {
			x.w.Net.Deliver(data, srvAddr, aAddr)
		}
		return x.w.Net.WaitQuiescent()
	}
	switch e.K {
	case "deliver": // genuine A c2s packet i
		x.expect["A.c2s"][msgName("A.c2s", e.I)] = true
		return deliver(x.c2s[e.I].Data, true)
	case "deliver-s2c":
		x.expect["A.s2c"][msgName("A.s2c", e.I)] = true
		return deliver(x.s2c[e.I].Data, false)
	case "deliver-b": // B's genuine packet, arriving from A's address (authentic for B)
		x.expect["B.c2s"][msgName("B.c2s", e.I)] = true
		return deliver(x.bpk[e.I].Data, true)
	case "flip":
		d := append([]byte{}, x.c2s[e.I].Data...)
		d[regionOffset(e.A, len(d))] ^= 0x01
		return deliver(d, true)
	case "flip-type-ctrl": // 0x10 -> 0x80: data packet presented as control
		d := append([]byte{}, x.c2s[e.I].Data...)
		d[0] = 0x80
		return deliver(d, true)
	case "flip-s2c":
		d := append([]byte{}, x.s2c[e.I].Data...)
		d[regionOffset(e.A, len(d))] ^= 0x01
		return deliver(d, false)
	case "trunc":
		d := x.c2s[e.I].Data
		if e.A > len(d) {
			return nil
		}
		return deliver(d[:e.A], true)
	case "trunc-s2c":
		d := x.s2c[e.I].Data
		if e.A > len(d) {
			return nil
		}
		return deliver(d[:e.A], false)
	case "extend":
		return deliver(append(append([]byte{}, x.c2s[e.I].Data...), make([]byte, e.A)...), true)
	case "reflect-to-client": // A's own c2s packet bounced back to A
		return deliver(x.c2s[e.I].Data, false)
	case "reflect-to-server": // server's s2c packet bounced back to the server
		return deliver(x.s2c[e.I].Data, true)
	case "xsession-rewrite": // B's packet with the public session id rewritten to A's
		d := append([]byte{}, x.bpk[e.I].Data...)
		copy(d[4:8], x.sidA[:])
		return deliver(d, true)
	case "forged-control":
		d := []byte{0x80, 0, 0, 0}
		d = append(d, x.sidA[:]...)
		d = append(d, 0, 0, 0, 0, 0, 0, 0, byte(9+e.I)) // fresh counter
		d = append(d, make([]byte, e.A+32)...)          // junk body + junk tag
		return deliver(d, true)
	case "forged-control-client":
		d := []byte{0x80, 0, 0, 0}
		d = append(d, x.sidA[:]...)
		d = append(d, 0, 0, 0, 0, 0, 0, 0, byte(9+e.I))
		d = append(d, make([]byte, e.A+32)...)
		return deliver(d, false)
	}
	return fmt.Errorf("unknown event %v", e)
}

func alphabet(thorough bool) []event {
	var a []event
	for i := 0; i < 4; i++ {
		a = append(a, event{K: "deliver", I: i})
	}
	for i := 0; i < 2; i++ {
		a = append(a, event{K: "deliver-s2c", I: i}, event{K: "deliver-b", I: i})
	}
	pk := []int{0, 1}
	if thorough {
		pk = []int{0, 1, 3}
	}
	for _, i := range pk {
		for reg := range regions {
			a = append(a, event{K: "flip", I: i, A: reg})
		}
		a = append(a, event{K: "flip-type-ctrl", I: i})
	}
	for reg := range regions {
		a = append(a, event{K: "flip-s2c", I: 0, A: reg})
	}
	for _, n := range []int{0, 1, 3, 4, 7, 8, 15, 16, 31, 32, 47, 48, 49} {
		a = append(a, event{K: "trunc", I: 0, A: n})
	}
	a = append(a, event{K: "trunc", I: 0, A: -1}) // len-1, resolved below
	for _, n := range []int{0, 8, 47} {
		a = append(a, event{K: "trunc-s2c", I: 0, A: n})
	}
	for _, k := range []int{1, 16, 32} {
		a = append(a, event{K: "extend", I: 0, A: k})
	}
	a = append(a, event{K: "reflect-to-client", I: 0}, event{K: "reflect-to-server", I: 0},
		event{K: "xsession-rewrite", I: 0}, event{K: "xsession-rewrite", I: 1})
	for _, n := range []int{0, 1, 2, 33} {
		a = append(a, event{K: "forged-control", I: 0, A: n})
	}
	a = append(a, event{K: "forged-control-client", I: 0, A: 1})
	return a
}

func runSeq(std *fix.Std, seq []event) (problems []string, engineErr error) {
	x, err := setup(std)
	if err != nil {
		return nil, err
	}
	defer x.close()
	for k, e := range seq {
		if e.K == "trunc" && e.A == -1 {
			e.A = len(x.c2s[e.I].Data) - 1
		}
		if err := x.apply(e); err != nil {
			return x.problems, err
		}
		x.drain(fmt.Sprintf("event %d %v", k, e))
	}
	// probe: a fresh message on each direction of A still arrives
	p1, p2 := msgName("A.c2s", 100), msgName("A.s2c", 100)
	x.written["A.c2s"][p1], x.written["A.s2c"][p2] = true, true
	if err := x.A.C.WriteMsg([]byte(p1)); err != nil {
		x.problems = append(x.problems, "probe write on the client failed: "+err.Error())
	}
	if err := x.hA.WriteMsg([]byte(p2)); err != nil {
		x.problems = append(x.problems, "probe write on the server handle failed: "+err.Error())
	}
	x.expect["A.c2s"][p1], x.expect["A.s2c"][p2] = true, true
	if err := x.w.Pump(nil); err != nil {
		return x.problems, err
	}
	x.drain("probe")
	return x.problems, nil
}

func seqKey(seq []event) string {
	var s []string
	for _, e := range seq {
		s = append(s, e.String())
	}
	return strings.Join(s, ",")
}

// classKey gives the identity of a failing sequence: event kinds and region/length arguments,
// which is what distinguishes one defect from another.
func classKey(seq []event, problem string) string {
	var s []string
	for _, e := range seq {
		switch e.K {
		case "flip", "flip-s2c":
			s = append(s, e.K+":"+regions[e.A])
		case "deliver", "deliver-s2c", "deliver-b":
			s = append(s, e.K)
		default:
			s = append(s, e.K)
		}
	}
	w := "other"
	switch {
	case strings.Contains(problem, "never wrote"):
		w = "forgery"
	case strings.Contains(problem, "times on"):
		w = "duplicate"
	case strings.Contains(problem, "never got it"):
		w = "lost"
	case strings.Contains(problem, "closed"):
		w = "closed"
	case strings.Contains(problem, "probe"):
		w = "probe"
	}
	return "adv:" + w + ":" + strings.Join(s, ",")
}

var writersBin = flag.String("bin-writers", "", "the concurrent-writers harness (c03x), built with transport rewritten for the scheduler")

func main() {
	r := vk.New("C03", "fault_enumeration")
	std := fix.NewStd()
	if r.ReplayFile != "" && *writersBin != "" {
		// schedules of the concurrent-writers part are replayed by the build they were found on
		if b, err := os.ReadFile(r.ReplayFile); err == nil && bytes.Contains(b, []byte(`"choices"`)) {
			cmd := exec.Command(*writersBin, "-replay", r.ReplayFile, "-tier", r.Tier)
			cmd.Stdout, cmd.Stderr = os.Stdout, os.Stderr
			if err := cmd.Run(); err != nil {
				if ee, ok := err.(*exec.ExitError); ok {
					os.Exit(ee.ExitCode())
				}
				os.Exit(2)
			}
			os.Exit(0)
		}
	}
	if r.ReplayFile != "" {
		var seq []event
		if err := r.LoadReplay(&seq); err != nil {
			r.EngineError("replay: %v", err)
		} else {
			ps, err := runSeq(std, seq)
			if err != nil {
				r.EngineError("%v", err)
			}
			for _, p := range ps {
				r.Violation(classKey(seq, p), p, seq)
			}
		}
		r.Finish()
	}
	bound := 2
	if r.Thorough() {
		bound = 3
	}
	alpha := alphabet(r.Thorough())
	r.SetRule(fmt.Sprintf("two real sessions (A, B) on one server; 4 client->server, 2 server->client packets of A and 2 packets of B are put in flight; every sequence of <=%d adversary events over a %d-event alphabet (genuine delivery of any packet in any order / any number of times = drop, dup, reorder; bit flip in each of %v; data packet re-typed as control; truncations; extensions; reflection both ways; cross-session with the session id rewritten; B's packets from A's address; forged control messages with junk bodies) is executed on fresh endpoints; after every event all readers are drained and compared with a reference stream model (authentic, at most once, every genuinely delivered packet is read, nothing closes), then a probe must cross in both directions. Plus write sizes around multiples of the maximum payload on a faithful network, a >448 counter jump, and a scan of every datagram that crossed the wire for payload marker, server name and certificate bytes. distinct_nontrivial = distinct event sequences executed.", bound, len(alpha), regions))
	var seqs [][]event
	var rec func(cur []event)
	rec = func(cur []event) {
		if len(cur) > 0 {
			seqs = append(seqs, append([]event{}, cur...))
		}
		if len(cur) == bound {
			return
		}
		for _, e := range alpha {
			rec(append(cur, e))
		}
	}
	rec(nil)
	r.Parallel(len(seqs), func(i int) {
		if r.Expired() {
			return
		}
		ps, err := runSeq(std, seqs[i])
		r.Eval()
		if err != nil {
			r.EngineError("%s: %v", seqKey(seqs[i]), err)
			return
		}
		for _, p := range ps {
			r.Violation(classKey(seqs[i], p), p, seqs[i])
		}
		r.Distinct(seqKey(seqs[i]))
		if i%1009 == 0 {
			r.Sample(seqKey(seqs[i]))
		}
	})
	if r.Expired() {
		r.Cap("wall-clock budget")
	}
	r.Set("adversary_sequences", len(seqs))
	r.Set("sequence_bound", bound)

	writeSizes(r, std)
	counterJump(r, std)
	confidentiality(r, std)
	if *writersBin != "" {
		r.RunChild("writers", *writersBin)
	}
	r.Assume("tag forgery is impossible; the adversary's alphabet is the stated one (sequences up to the bound); source addresses are not authenticated by design (C15)")
	r.Finish()
}

// writeSizes: on a faithful network every accepted byte arrives and the count is exact.
func writeSizes(r *vk.Run, std *fix.Std) {
	M := transport.MaxPlaintextSize
	sizes := []int{0, 1, 2, M - 1, M, M + 1, 2*M - 1, 2 * M, 2*M + 1, 3*M + 7}
	type wc struct {
		size    int
		msg     bool
		fromSrv bool
	}
	var cases []wc
	for _, s := range sizes {
		cases = append(cases, wc{s, false, false}, wc{s, false, true})
	}
	for _, s := range []int{0, 1, M, M + 1} {
		cases = append(cases, wc{s, true, false}, wc{s, true, true})
	}
	var mu sync.Mutex
	_ = mu
	r.Parallel(len(cases), func(i int) {
		c := cases[i]
		r.Eval()
		id := fmt.Sprintf("write:size=M%+d", c.size-M)
		if c.size < M/2 {
			id = fmt.Sprintf("write:size=%d", c.size)
		} else if c.size > 3*M/2 {
			id = fmt.Sprintf("write:size=%dM%+d", c.size/M, c.size-(c.size/M)*M)
		}
		if c.msg {
			id += ":WriteMsg"
		}
		if c.fromSrv {
			id += ":server"
		}
		w := fix.NewWorld()
		defer w.Close()
		srv, err := w.StartServer(std.ServerConfig(false), std.ServerAdr)
		if err != nil {
			r.EngineError("%v", err)
			return
		}
		cl := w.NewClient(std.ClientConfig(false), simnet.Addr("10.0.0.2", 4000), std.ServerAdr)
		cl.Start()
		if err := w.Pump(nil); err != nil || !cl.Completed() {
			r.EngineError("write sizes: handshake failed: %v", err)
			return
		}
		h := srv.Accept()
		if h == nil {
			r.EngineError("write sizes: no handle")
			return
		}
		data := make([]byte, c.size)
		for k := range data {
			data[k] = byte(k*7 + k/251)
		}
		var n int
		var werr error
		var rdLen func() int
		var rd func([]byte) (int, error)
		if c.fromSrv {
			rdLen, rd = cl.C.VerifHandle().VerifRecvLen, cl.C.Read
			if c.msg {
				werr = h.WriteMsg(data)
				n = len(data)
			} else {
				n, werr = h.Write(data)
			}
		} else {
			rdLen, rd = h.VerifRecvLen, h.Read
			if c.msg {
				werr = cl.C.WriteMsg(data)
				n = len(data)
			} else {
				n, werr = cl.C.Write(data)
			}
		}
		if err := w.Pump(nil); err != nil {
			r.EngineError("%v", err)
			return
		}
		var got []byte
		buf := make([]byte, 4096)
		for rdLen() > 0 {
			k, err := rd(buf)
			if err != nil {
				break
			}
			got = append(got, buf[:k]...)
		}
		switch {
		case c.msg && c.size > M:
			if werr == nil && !bytes.Equal(got, data) {
				r.Violation(id, fmt.Sprintf("WriteMsg of %d bytes (> maximum payload) reported success but %d bytes arrived", c.size, len(got)), c.size)
			}
			if werr != nil && len(got) != 0 {
				r.Violation(id, "WriteMsg refused an over-long message but bytes arrived", c.size)
			}
		case werr == nil:
			if n != len(data) {
				r.Violation(id, fmt.Sprintf("Write(%d bytes) returned n=%d with a nil error", len(data), n), c.size)
			} else if !bytes.Equal(got, data) {
				r.Violation(id, fmt.Sprintf("Write(%d bytes) reported %d bytes written but the reader received %d bytes (equal prefix %d) on a faithful network", len(data), n, len(got), commonPrefix(got, data)), c.size)
			}
		default:
			if n > len(data) || !bytes.Equal(got, data[:n]) {
				r.Violation(id, fmt.Sprintf("Write failed with %v reporting n=%d but the reader received %d bytes that are not data[:n]", werr, n, len(got)), c.size)
			}
		}
		r.Distinct(id)
	})
	r.Set("write_size_cases", len(cases))
}

func commonPrefix(a, b []byte) int {
	n := 0
	for n < len(a) && n < len(b) && a[n] == b[n] {
		n++
	}
	return n
}

// counterJump: replay of a packet after >448 newer ones, and of packets inside the window.
func counterJump(r *vk.Run, std *fix.Std) {
	r.Eval()
	w := fix.NewWorld()
	defer w.Close()
	srv, err := w.StartServer(std.ServerConfig(false), std.ServerAdr)
	if err != nil {
		r.EngineError("%v", err)
		return
	}
	cl := w.NewClient(std.ClientConfig(false), simnet.Addr("10.0.0.2", 4000), std.ServerAdr)
	cl.Start()
	if err := w.Pump(nil); err != nil || !cl.Completed() {
		r.EngineError("counter jump: handshake failed")
		return
	}
	h := srv.Accept()
	const N = 600
	var pk []*simnet.Datagram
	for i := 0; i < N; i++ {
		cl.C.WriteMsg([]byte(fmt.Sprintf("m-%d", i)))
		pk = append(pk, w.Net.Pop())
	}
	got := map[string]int{}
	drain := func() {
		buf := make([]byte, 100)
		for h.VerifRecvLen() > 0 {
			n, err := h.ReadMsg(buf)
			if err != nil {
				return
			}
			got[string(buf[:n])]++
		}
	}
	send := func(i int) {
		w.Net.Deliver(pk[i].Data, cl.Addr, srv.Addr)
		w.Net.WaitQuiescent()
		drain()
	}
	// deliver evens up to 500 in order, then odd ones late (in window), then replays everywhere
	for i := 0; i <= 500; i += 2 {
		send(i)
	}
	for i := 499; i >= 0; i -= 2 { // late but fresh: accepted iff within 448 of the top (500)
		send(i)
	}
	for i := 0; i <= 500; i++ { // every one of them again: all duplicates or stale
		send(i)
	}
	send(599) // jump
	for i := 0; i < 600; i += 7 {
		send(i)
	}
	for i := 0; i <= 500; i++ {
		m := fmt.Sprintf("m-%d", i)
		want := 1
		if i%2 == 1 && i+448 < 500 {
			want = 0 // stale when it finally arrived
		}
		if got[m] != want {
			r.Violation(fmt.Sprintf("jump:count:%d", got[m]), fmt.Sprintf("packet %d was returned %d times, reference %d (evens in order to 500, odds late in reverse, full replay, jump to 599, replay)", i, got[m], want), i)
			break
		}
	}
	for i := 501; i < 599; i++ {
		m := fmt.Sprintf("m-%d", i)
		want := 0
		if i%7 == 0 && i+448 >= 599 {
			want = 1
		}
		if got[m] != want {
			r.Violation(fmt.Sprintf("jump:late:%d", got[m]), fmt.Sprintf("packet %d (first delivered after the jump to 599) returned %d times, reference %d", i, got[m], want), i)
			break
		}
	}
	r.Distinct("counter-jump")
}

// confidentiality: nothing sensitive crosses the wire in clear.
func confidentiality(r *vk.Run, std *fix.Std) {
	for _, hidden := range []bool{false, true} {
		r.Eval()
		w := fix.NewWorld()
		srv, err := w.StartServer(std.ServerConfig(false), std.ServerAdr)
		if err != nil {
			r.EngineError("%v", err)
			return
		}
		cl := w.NewClient(std.ClientConfig(hidden), simnet.Addr("10.0.0.2", 4000), std.ServerAdr)
		cl.Start()
		w.Pump(nil)
		h := srv.Accept()
		if !cl.Completed() || h == nil {
			r.EngineError("confidentiality: handshake failed (hidden=%v)", hidden)
			w.Close()
			return
		}
		cl.C.WriteMsg([]byte(marker + " from client"))
		h.WriteMsg([]byte(marker + " from server"))
		big := bytes.Repeat([]byte(marker), 3000)
		cl.C.Write(big)
		w.Pump(nil)
		needles := map[string][]byte{"application payload": []byte(marker), "server name": std.SrvName.Label}
		for name, c := range map[string][]byte{"server leaf certificate": must(std.SrvLeaf.Marshal()), "intermediate certificate": must(std.PKI.Inter.Marshal()), "client leaf certificate": must(std.CliLeaf.Marshal())} {
			for o := 0; o+16 <= len(c); o++ {
				needles[fmt.Sprintf("%s bytes [%d,%d)", name, o, o+16)] = c[o : o+16]
			}
		}
		log := w.Net.LogSince(0)
		for _, d := range log {
			for what, n := range needles {
				if bytes.Contains(d.Data, n) {
					cls := strings.SplitN(what, " bytes", 2)[0]
					r.Violation(fmt.Sprintf("clear:%s:type=%02x", cls, d.Data[0]), fmt.Sprintf("%s appears unencrypted in a datagram of type 0x%02x (hidden=%v)", what, d.Data[0], hidden), nil)
				}
			}
		}
		r.AddInt("wire_datagrams_scanned", int64(len(log)))
		r.AddInt("needles", int64(len(needles)))
		w.Close()
	}
	r.Distinct("confidentiality")
}

func must(b []byte, err error) []byte {
	if err != nil {
		panic(err)
	}
	return b
}
