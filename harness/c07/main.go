// C07 — a delegate session can do only what its grants allow, once, and in time.
// L1: explicit-state BFS at handler level on a real HopServer: AddAuthGrant / Login / Request /
// Tick, against a reference of stored, unconsumed, effective grants.
package main

import (
	"fmt"
	"io"
	"net"
	"os"
	"sort"
	"strings"
	"sync"
	"sync/atomic"
	"time"

	"github.com/AstromechZA/etcpwdparse"

	"hop.computer/hop/authgrants"
	"hop.computer/hop/authkeys"
	"hop.computer/hop/certs"
	"hop.computer/hop/common"
	"hop.computer/hop/config"
	"hop.computer/hop/hopserver"
	"hop.computer/hop/keys"
	"hop.computer/hop/pkg/thunks"
	"hop.computer/hop/portforwarding"
	"hop.computer/hop/zzverif/seqx"
	"hop.computer/hop/zzverif/tuberig"
	"hop.computer/hop/zzverif/vk"
)

const T = int64(2_000_000_000)

var winNames = []string{"past", "current", "future", "instant"}
var windows = [][2]int64{{T - 200, T - 100}, {T - 100, T + 100}, {T + 100, T + 200}, {T, T}}
var clocks = []int64{T - 101, T - 100, T - 1, T, T + 1, T + 99, T + 100, T + 101, T + 199, T + 200}
var gtypes = []struct {
	name string
	t    authgrants.GrantType
	cmd  string
}{{"shell", authgrants.Shell, ""}, {"cmd-a", authgrants.Command, "a"}, {"cmd-b", authgrants.Command, "b"},
	// grants for other action kinds: they never authorise a shell or a command. The replay path
	// and the thorough tier use all of them, the quick tier the first (see nGtypes).
	{"local-pf", authgrants.LocalPF, ""}, {"remote-pf", authgrants.RemotePF, ""}, {"acme", authgrants.Acme, ""}}

// nGtypes is how many entries of gtypes the alphabet uses.
var nGtypes = 4
var thoroughTier bool
var principals = [][2]int{{0, 1}, {0, 2}, {1, 1}} // (user index, key index)
var users = []string{"u1", "u2"}
var reqs = []struct {
	cmd string
	pty bool
}{{"", true}, {"a", false}, {"b", false}, {"a ", false}, {"", false}, {"a", true}}

type ev struct {
	K string `json:"k"` // add | login | req | tick
	A int    `json:"a"`
	B int    `json:"b"`
	C int    `json:"c"`
}

func (e ev) String() string {
	switch e.K {
	case "add":
		return fmt.Sprintf("add(%s,%s,%s/k%d)", gtypes[e.A].name, winNames[e.B], users[principals[e.C][0]], principals[e.C][1])
	case "login":
		return fmt.Sprintf("login(%s/k%d)", users[principals[e.A][0]], principals[e.A][1])
	case "req":
		return fmt.Sprintf("req(s%d,%q,pty=%v)", e.A, reqs[e.B].cmd, reqs[e.B].pty)
	}
	return fmt.Sprintf("tick(%+d)", clocks[e.A]-T)
}

var K [3]keys.DHPublicKey
var leaf [3]certs.Certificate

var clockMu sync.Mutex
var clockOf = map[uint64]int64{} // goroutine-less: one clock per executing path, selected by a token

// The clock thunk is global while paths execute in parallel: the only reader is the gate, so the
// (tiny) call into it is serialised and the clock set just before it.
var gateMu sync.Mutex
var gateNow int64 = T

func thunkNow() time.Time { return time.Unix(gateNow, 0) }

// atClock runs one call into the server with the path's clock installed.
func atClock(now int64, fn func()) string {
	gateMu.Lock()
	defer gateMu.Unlock()
	gateNow = now
	return vk.Try(fn)
}

type rgrant struct {
	t        int
	from, to int64
	consumed bool
}

func exec(path []ev) seqx.Step {
	now := T
	sock := "/nonexistent/sock"
	s, _ := hopserver.NewHopServerExt(nil, &config.ServerConfig{EnableAuthgrants: true, AgProxyListenSocket: &sock}, authkeys.NewSyncAuthKeySet())
	stored := map[int][]*rgrant{} // principal index -> live (not yet handed out) grants
	type sess struct {
		v      *hopserver.VerifSession
		grants []*rgrant
	}
	var sessions []*sess
	for i, e := range path {
		switch e.K {
		case "tick":
			now = clocks[e.A]
		case "add":
			p := principals[e.C]
			in := &authgrants.Intent{GrantType: gtypes[e.A].t, TargetUsername: users[p[0]], DelegateCert: leaf[p[1]],
				StartTime: time.Unix(windows[e.B][0], 0), ExpTime: time.Unix(windows[e.B][1], 0)}
			in.AssociatedData.CommandGrantData.Cmd = gtypes[e.A].cmd
			var err error
			if pn := atClock(now, func() { err = s.AddAuthGrant(in) }); pn != "" {
				return seqx.Step{Bad: fmt.Sprintf("step %d %v panics: %s", i, e, pn)}
			}
			if err != nil {
				return seqx.Step{Bad: fmt.Sprintf("step %d %v: AddAuthGrant failed: %v", i, e, err)}
			}
			stored[e.C] = append(stored[e.C], &rgrant{t: e.A, from: windows[e.B][0], to: windows[e.B][1]})
		case "login":
			if len(sessions) >= 2 {
				return seqx.Step{Stop: true, Key: "cap"}
			}
			p := principals[e.A]
			var acts []authgrants.Authgrant
			var err error
			if pn := atClock(now, func() { acts, err = s.AuthorizeKeyAuthGrant(users[p[0]], K[p[1]]) }); pn != "" {
				return seqx.Step{Bad: fmt.Sprintf("step %d %v panics: %s", i, e, pn)}
			}
			want := stored[e.A]
			if err == nil && len(want) == 0 {
				return seqx.Step{Bad: fmt.Sprintf("step %d %v: grant login admitted but the reference holds no stored grant for exactly this user and key", i, e)}
			}
			live := 0
			for _, g := range want {
				if now < g.to {
					live++
				}
			}
			if err != nil && live > 0 {
				return seqx.Step{Bad: fmt.Sprintf("step %d %v: grant login refused although %d unexpired grants are stored for this user and key (liveness)", i, e, live)}
			}
			if err != nil {
				continue
			}
			// what the session was handed must be a sub-multiset of what was stored; anything
			// withheld must already have expired (the clock only moves forward)
			var handed []*rgrant
			used := map[*rgrant]bool{}
			for _, a := range acts {
				var m *rgrant
				for _, g := range want {
					gt := gtypes[g.t]
					if !used[g] && gt.t == a.GrantType && gt.cmd == a.AssociatedData.CommandGrantData.Cmd && g.from == a.StartTime.Unix() && g.to == a.ExpTime.Unix() {
						m = g
						break
					}
				}
				if m == nil {
					return seqx.Step{Bad: fmt.Sprintf("step %d %v: the session was handed a grant (type %d, cmd %q, window %d..%d) that is not among the unconsumed grants stored for this user and key (handed %d, stored %d)", i, e, a.GrantType, a.AssociatedData.CommandGrantData.Cmd, a.StartTime.Unix()-T, a.ExpTime.Unix()-T, len(acts), len(want))}
				}
				used[m] = true
				handed = append(handed, m)
			}
			for _, g := range want {
				if !used[g] && now < g.to {
					return seqx.Step{Bad: fmt.Sprintf("step %d %v: an unexpired stored grant was not handed to the session (liveness)", i, e)}
				}
			}
			sessions = append(sessions, &sess{v: s.VerifNewSession(users[p[0]], true, acts), grants: handed})
			stored[e.A] = nil // grants disappear from the server once handed to a session
		case "req":
			if e.A >= len(sessions) {
				return seqx.Step{Stop: true, Key: "nosession"}
			}
			se := sessions[e.A]
			rq := reqs[e.B]
			var match *rgrant
			for _, g := range se.grants {
				if g.consumed || !(g.from <= now && now < g.to) {
					continue
				}
				gt := gtypes[g.t]
				if (gt.t == authgrants.Shell && rq.pty) || (gt.t == authgrants.Command && !rq.pty && gt.cmd == rq.cmd) {
					match = g
					break
				}
			}
			var err error
			if pn := atClock(now, func() { err = se.v.CheckCmd(rq.cmd, rq.pty) }); pn != "" {
				return seqx.Step{Bad: fmt.Sprintf("step %d %v panics: %s", i, e, pn)}
			}
			if err == nil && match == nil {
				why := "no grant of this session matches"
				reasons := map[string]bool{}
				for _, g := range se.grants {
					gt := gtypes[g.t]
					m := (gt.t == authgrants.Shell && rq.pty) || (gt.t == authgrants.Command && !rq.pty && gt.cmd == rq.cmd)
					switch {
					case m && g.consumed:
						reasons["already used"] = true
					case m && now < g.from:
						reasons["not yet effective"] = true
					case m && now >= g.to:
						reasons["has expired"] = true
					}
				}
				if len(reasons) > 0 {
					var rs []string
					for k := range reasons {
						rs = append(rs, k)
					}
					sort.Strings(rs)
					why = "every matching grant of the session is one of: " + strings.Join(rs, " / ")
				}
				return seqx.Step{Bad: fmt.Sprintf("step %d %v at clock T%+d: the action was allowed although %s", i, e, now-T, why)}
			}
			if err != nil && match != nil {
				return seqx.Step{Bad: fmt.Sprintf("step %d %v at clock T%+d: refused although an unused, effective grant matches (liveness)", i, e, now-T)}
			}
			if match != nil {
				match.consumed = true
			}
		}
	}
	// canonical key: implementation grant state + sessions' remaining actions + clock + reference
	var rk []string
	for p, gs := range stored {
		for _, g := range gs {
			rk = append(rk, fmt.Sprintf("p%d:%d:%d", p, g.t, g.from))
		}
	}
	for si, se := range sessions {
		for _, g := range se.grants {
			rk = append(rk, fmt.Sprintf("s%d:%d:%d:%v", si, g.t, g.from, g.consumed))
		}
		rk = append(rk, fmt.Sprintf("s%d-actions=%d", si, se.v.Actions()))
	}
	sort.Strings(rk)
	return seqx.Step{Key: fmt.Sprintf("%s|clock=%d|%s", s.VerifGrantState(), now-T, strings.Join(rk, ","))}
}

// ---- L2: what the session's tube dispatch does for the other action kinds ----

// dispatchSlice drives the real handlers hopSession.start dispatches non-exec tubes to (handleAgc
// for further grant issuing, startPF for port forwarding) on sessions of every admission kind,
// over a real tube of a free-running in-memory muxer pair, and observes whether the action was
// started: a new grant in the server's map / the server dialling the requested service.
func dispatchSlice(r *vk.Run) {
	var k9 keys.DHPublicKey
	for j := range k9 {
		k9[j] = byte(200 + j)
	}
	dleaf, _ := certs.SelfSignLeaf(&certs.Identity{PublicKey: k9, Names: []certs.Name{certs.RawStringName("further-delegate")}})
	type sessKind struct {
		name    string
		grant   bool
		actions []authgrants.Authgrant
	}
	mkAct := func(t authgrants.GrantType, cmd string) authgrants.Authgrant {
		a := authgrants.Authgrant{GrantType: t, StartTime: time.Unix(0, 0), ExpTime: time.Unix(1<<40, 0)}
		a.AssociatedData.CommandGrantData.Cmd = cmd
		return a
	}
	kinds := []sessKind{
		{"admitted by authorized key", false, nil},
		{"admitted by a shell grant", true, []authgrants.Authgrant{mkAct(authgrants.Shell, "")}},
		{"admitted by a command grant", true, []authgrants.Authgrant{mkAct(authgrants.Command, "a")}},
		{"admitted by a grant that is already used", true, nil},
	}
	intents := []struct {
		name string
		t    authgrants.GrantType
		cmd  string
	}{{"shell", authgrants.Shell, ""}, {"command x", authgrants.Command, "x"}, {"command a", authgrants.Command, "a"}}
	dir, err := os.MkdirTemp(os.Getenv("VERIF_TMP"), "c07pf")
	if err != nil {
		r.EngineError("temp dir: %v", err)
		return
	}
	defer os.RemoveAll(dir)
	n := 0
	for _, sk := range kinds {
		// (1) further grant issuing
		for _, in := range intents {
			r.Eval()
			n++
			sock := "/nonexistent/agproxy.sock"
			s, _ := hopserver.NewHopServerExt(nil, &config.ServerConfig{EnableAuthgrants: true, AgProxyListenSocket: &sock}, authkeys.NewSyncAuthKeySet())
			vs := s.VerifNewSession("u1", sk.grant, append([]authgrants.Authgrant{}, sk.actions...))
			vs.SetPeerLeaf(&leaf[1])
			m := tuberig.NewMuxers(0)
			ct, st, err := m.ReliablePair(common.AuthGrantTube)
			if err != nil {
				r.EngineError("tube: %v", err)
				m.Stop()
				continue
			}
			done := make(chan struct{})
			go func() { defer close(done); vs.HandleAgc(st) }()
			intent := authgrants.Intent{GrantType: in.t, TargetUsername: "u1", TargetSNI: certs.DNSName("target.example"), DelegateCert: *dleaf, StartTime: time.Unix(T-100, 0), ExpTime: time.Unix(T+100000, 0)}
			intent.AssociatedData.CommandGrantData.Cmd = in.cmd
			var reply string
			atClock(T, func() {
				authgrants.WriteIntentCommunication(ct, intent)
				ct.SetReadDeadline(time.Now().Add(20 * time.Second))
				msg, err := authgrants.ReadConfOrDenial(ct)
				switch {
				case err != nil:
					reply = "no answer: " + err.Error()
				case msg.MsgType == authgrants.IntentConfirmation:
					reply = "confirmed"
				default:
					reply = "denied"
				}
			})
			ct.Close()
			m.Stop()
			<-done
			stored := strings.Contains(s.VerifGrantState(), fmt.Sprintf("%x", k9[:4]))
			r.Distinct(fmt.Sprintf("agc|%s|%s|%s|%v", sk.name, in.name, reply, stored))
			if sk.grant && (stored || reply == "confirmed") {
				r.Violation("l2:further-grant-issued:"+strings.ReplaceAll(sk.name, " ", "-"), fmt.Sprintf("a session %s (remaining grants: %d) opened an authorization-grant tube and had a %s grant for another key issued on this server (answer %q, grant stored=%v): no grant of the session covers issuing grants", sk.name, len(sk.actions), in.name, reply, stored), map[string]any{"session": sk.name, "intent": in.name})
			}
		}
		// (2) port forwarding: ask the server to reach a service (a unix socket we listen on)
		r.Eval()
		n++
		path := fmt.Sprintf("%s/svc%d.sock", dir, n)
		ln, err := net.Listen("unix", path)
		if err != nil {
			r.Cap(fmt.Sprintf("port-forwarding slice skipped for %q: cannot listen on a unix socket here: %v", sk.name, err))
			continue
		}
		var dialled atomic.Bool
		go func() {
			for {
				c, err := ln.Accept()
				if err != nil {
					return
				}
				dialled.Store(true)
				c.Close()
			}
		}()
		sock := "/nonexistent/agproxy.sock"
		s, _ := hopserver.NewHopServerExt(nil, &config.ServerConfig{EnableAuthgrants: true, AgProxyListenSocket: &sock}, authkeys.NewSyncAuthKeySet())
		vs := s.VerifNewSession("u1", sk.grant, append([]authgrants.Authgrant{}, sk.actions...))
		m := tuberig.NewMuxers(0)
		ct, st, err := m.ReliablePair(common.PFControlTube)
		if err != nil {
			r.EngineError("tube: %v", err)
			m.Stop()
			ln.Close()
			continue
		}
		done := make(chan struct{})
		go func() { defer close(done); vs.StartPF(st, m.Server) }()
		ct.Write(portforwarding.VerifToBytes(&net.UnixAddr{Name: path, Net: "unix"}, portforwarding.PfLocal))
		ct.SetReadDeadline(time.Now().Add(20 * time.Second))
		ans := make([]byte, 1)
		_, rerr := io.ReadFull(ct, ans)
		<-done
		ct.Close()
		m.Stop()
		// success (1) is only written after the server's dial to the service succeeded; the
		// accept side of that connection may lag, so it is awaited rather than sampled
		started := rerr == nil && ans[0] == 1
		for i := 0; started && !dialled.Load() && i < 500; i++ {
			time.Sleep(10 * time.Millisecond)
		}
		sawConn := dialled.Load()
		ln.Close()
		r.Distinct(fmt.Sprintf("pf|%s|%v|%v|%v|%v", sk.name, ans[0], rerr, started, sawConn))
		if sk.grant && started {
			r.Violation("l2:port-forwarding-started:"+strings.ReplaceAll(sk.name, " ", "-"), fmt.Sprintf("a session %s (remaining grants: %d) opened a port-forwarding control tube and the server dialled the requested service and answered %d: no grant of the session covers port forwarding", sk.name, len(sk.actions), ans[0]), map[string]any{"session": sk.name, "action": "local port forward"})
		}
	}
	r.Set("dispatch_slice_cases", n)
}

func main() {
	r := vk.New("C07", "model_checking")
	for i := 1; i <= 2; i++ {
		for j := range K[i] {
			K[i][j] = byte(i*60 + j)
		}
		c, _ := certs.SelfSignLeaf(&certs.Identity{PublicKey: K[i]})
		leaf[i] = *c
	}
	thunks.TimeNow = thunkNow
	thunks.LookupUser = func(u string) (*etcpwdparse.EtcPasswdEntry, error) { return nil, thunks.ErrUserNotFound }
	if r.ReplayFile != "" {
		var p []ev
		if err := r.LoadReplay(&p); err != nil {
			r.EngineError("replay: %v", err)
		} else if st := exec(p); st.Bad != "" {
			r.Violation("replayed", st.Bad, p)
		}
		r.Finish()
	}
	depth := 4
	if r.Thorough() {
		depth = 5
		nGtypes = len(gtypes)
		thoroughTier = true
	}
	var alpha []ev
	for a := range gtypes[:nGtypes] {
		for b := range windows {
			for c := range principals {
				alpha = append(alpha, ev{K: "add", A: a, B: b, C: c})
			}
		}
	}
	for a := range principals {
		alpha = append(alpha, ev{K: "login", A: a})
	}
	for s := 0; s < 2; s++ {
		for b := range reqs {
			alpha = append(alpha, ev{K: "req", A: s, B: b})
		}
	}
	for a := range clocks {
		alpha = append(alpha, ev{K: "tick", A: a})
	}
	r.SetRule(fmt.Sprintf("explicit-state BFS to depth %d over %d events on a real HopServer with authgrants enabled: AddAuthGrant(type in {shell, cmd a, cmd b, local-pf; thorough: + remote-pf, acme, the three non-exec types as first event only, current window, first (user,key) pair} x window in %v x (user,key) in 3 pairs), Login (grant path), Request(session, (cmd,pty) in 6 forms incl. trailing blank, empty, pty+cmd) through the gate startCodex applies (checkCmd), forward clock moves to 10 values around every window edge (thunks.TimeNow, installed for every call into the server); reference: an action starts iff a grant handed to that session at login is unused, matches type and exact command text, and start <= now < expiry, and is then consumed; grants leave the server at login. States deduplicated on (grant map, key set, sessions, clock, reference).", depth, len(alpha), winNames))
	b := &seqx.BFS[ev]{MaxDepth: depth, Workers: r.Workers, Expired: r.Expired,
		Alphabet: func(path []ev) []ev {
			// the clock only moves forward
			cur := T
			for _, e := range path {
				if e.K == "tick" {
					cur = clocks[e.A]
				}
			}
			var a []ev
			for _, e := range alpha {
				if e.K == "tick" && clocks[e.A] <= cur {
					continue
				}
				// thorough tier (depth 5): grants of the non-exec types only as the first event, with
				// the current window and for the first (user,key) pair, which keeps the state space
				// within memory (the first attempt without this bound passed 20 GB);
				// the quick tier (depth 4) has local-pf grants at every position
				if thoroughTier && e.K == "add" && e.A >= 3 && (len(path) > 0 || e.B != 1 || e.C != 0) {
					continue
				}
				a = append(a, e)
			}
			return a
		},
		Exec: func(p []ev) seqx.Step {
			r.Eval()
			st := exec(p)
			if st.Bad == "" && !st.Stop {
				r.Distinct(st.Key)
			}
			return st
		},
		OnBad: func(path []ev, bad string) {
			var p []string
			for _, e := range path {
				p = append(p, e.String())
			}
			cls := "other"
			for _, c := range []string{"not yet effective", "has expired", "already used", "no grant of this session matches", "liveness", "was handed a grant", "login admitted", "panics"} {
				if strings.Contains(bad, c) {
					cls = strings.ReplaceAll(c, " ", "-")
					break
				}
			}
			r.Violation("l1:"+cls, bad+" | history: "+strings.Join(p, " "), path)
		}}
	st := b.Run()
	if st.Capped {
		r.Cap("budget expired during BFS")
	}
	r.Graph(st.States, st.Transitions, st.Transitions)
	r.Set("bfs_depth_completed", st.MaxDepth)
	dispatchSlice(r)
	r.Sample("add(cmd-a,current,u1/k1) login(u1/k1) req(s0,\"a\",pty=false) req(s0,\"a\",pty=false)")
	r.Assume("handler level: the gate is checkCmd as startCodex applies it to grant-admitted sessions; the dispatch of other tube kinds is checked by the L2 slice")
	r.Finish()
}
