// vinstr rewrites the synchronisation of Go packages so that it goes through the vrt runtime
// (deterministic scheduler + virtual clock). It works on /repo's current sources (through the
// driver's overlay), type-checks each package with go/types (imports from the compiler's export
// data) to classify range / len / cap operands, rewrites the AST and writes the result to an
// output directory together with replace.json (original path -> rewritten path) for the overlay.
//
// Unsupported constructs make it fail loudly (exit 2), never skip silently.
package main

import (
	"bytes"
	"encoding/json"
	"flag"
	"fmt"
	"go/ast"
	"go/format"
	"go/importer"
	"go/parser"
	"go/token"
	"go/types"
	"io"
	"os"
	"os/exec"
	"path/filepath"
	"reflect"
	"strings"
)

const (
	vrtPath    = "hop.computer/hop/zzverif/vrt"
	vsyncPath  = "hop.computer/hop/zzverif/vsync"
	vatomPath  = "hop.computer/hop/zzverif/vatomic"
)

var (
	fRepo    = flag.String("repo", "/repo", "")
	fOverlay = flag.String("overlay", "", "overlay json used for listing and reading files")
	fOut     = flag.String("out", "", "output directory")
	fTags    = flag.String("tags", "verif", "")
	fGo      = flag.String("go", "go", "")
)

type listPkg struct {
	Dir        string
	ImportPath string
	GoFiles    []string
	Export     string
	Imports    []string
	ImportMap  map[string]string
}

func fatal(format string, a ...any) {
	fmt.Fprintf(os.Stderr, "vinstr: "+format+"\n", a...)
	os.Exit(2)
}

func goList(args ...string) []listPkg {
	cmd := exec.Command(*fGo, append([]string{"list", "-json", "-tags", *fTags, "-overlay", *fOverlay}, args...)...)
	cmd.Dir = *fRepo
	cmd.Stderr = os.Stderr
	out, err := cmd.Output()
	if err != nil {
		fatal("go list %v: %v", args, err)
	}
	dec := json.NewDecoder(bytes.NewReader(out))
	var ps []listPkg
	for {
		var p listPkg
		if err := dec.Decode(&p); err == io.EOF {
			break
		} else if err != nil {
			fatal("go list output: %v", err)
		}
		ps = append(ps, p)
	}
	return ps
}

func main() {
	flag.Parse()
	if *fOut == "" || flag.NArg() == 0 {
		fatal("usage: vinstr -repo R -overlay ov.json -out dir pkg...")
	}
	os.MkdirAll(*fOut, 0o755)
	var ov struct{ Replace map[string]string }
	if b, err := os.ReadFile(*fOverlay); err == nil {
		json.Unmarshal(b, &ov)
	}
	read := func(path string) ([]byte, error) {
		if r, ok := ov.Replace[path]; ok {
			return os.ReadFile(r)
		}
		return os.ReadFile(path)
	}
	var pats []string
	for _, a := range flag.Args() {
		pats = append(pats, "./"+a)
	}
	targets := goList(pats...)
	// export data of all dependencies
	exports := map[string]string{}
	for _, p := range goList(append([]string{"-export", "-deps"}, pats...)...) {
		if p.Export != "" {
			exports[p.ImportPath] = p.Export
		}
	}
	replace := map[string]string{}
	for _, tp := range targets {
		fset := token.NewFileSet()
		var files []*ast.File
		var paths []string
		for _, f := range tp.GoFiles {
			path := filepath.Join(tp.Dir, f)
			src, err := read(path)
			if err != nil {
				fatal("read %s: %v", path, err)
			}
			af, err := parser.ParseFile(fset, path, src, parser.ParseComments)
			if err != nil {
				fatal("parse %s: %v", path, err)
			}
			files = append(files, af)
			paths = append(paths, path)
		}
		imp := importer.ForCompiler(fset, "gc", func(path string) (io.ReadCloser, error) {
			if m, ok := tp.ImportMap[path]; ok {
				path = m
			}
			e, ok := exports[path]
			if !ok {
				return nil, fmt.Errorf("no export data for %s", path)
			}
			return os.Open(e)
		})
		info := &types.Info{Types: map[ast.Expr]types.TypeAndValue{}, Uses: map[*ast.Ident]types.Object{}, Defs: map[*ast.Ident]types.Object{}}
		conf := types.Config{Importer: imp, Error: func(err error) {}}
		if _, err := conf.Check(tp.ImportPath, fset, files, info); err != nil {
			// type errors in the code under test would also break the build; report but continue
			fmt.Fprintf(os.Stderr, "vinstr: type-check %s: %v\n", tp.ImportPath, err)
		}
		for i, af := range files {
			rw := &rewriter{fset: fset, info: info, file: af}
			rw.rewriteFile()
			var buf bytes.Buffer
			if err := format.Node(&buf, fset, af); err != nil {
				fatal("print %s: %v", paths[i], err)
			}
			out := filepath.Join(*fOut, strings.ReplaceAll(strings.TrimPrefix(paths[i], "/"), "/", "__"))
			if err := os.WriteFile(out, buf.Bytes(), 0o644); err != nil {
				fatal("%v", err)
			}
			replace[paths[i]] = out
		}
	}
	b, _ := json.MarshalIndent(replace, "", " ")
	os.WriteFile(filepath.Join(*fOut, "replace.json"), b, 0o644)
}

type rewriter struct {
	fset    *token.FileSet
	info    *types.Info
	file    *ast.File
	usesVrt bool
	tmp     int
	timeName, syncName, atomicName string
	timeUsed                       bool
}

func (r *rewriter) pos(n ast.Node) string { return r.fset.Position(n.Pos()).String() }

func id(s string) *ast.Ident { return ast.NewIdent(s) }

func (r *rewriter) vrt(name string) ast.Expr {
	r.usesVrt = true
	return &ast.SelectorExpr{X: id("vrt"), Sel: id(name)}
}

func call(f ast.Expr, args ...ast.Expr) *ast.CallExpr { return &ast.CallExpr{Fun: f, Args: args} }

func (r *rewriter) fresh(p string) string {
	r.tmp++
	return fmt.Sprintf("vrt_%s%d", p, r.tmp)
}

func (r *rewriter) rewriteFile() {
	// imports
	for _, is := range r.file.Imports {
		path := strings.Trim(is.Path.Value, `"`)
		name := ""
		if is.Name != nil {
			name = is.Name.Name
		}
		switch path {
		case "sync":
			if name == "" {
				name = "sync"
			}
			r.syncName = name
			is.Name = id(name)
			is.Path.Value = `"` + vsyncPath + `"`
		case "sync/atomic":
			if name == "" {
				name = "atomic"
			}
			r.atomicName = name
			is.Name = id(name)
			is.Path.Value = `"` + vatomPath + `"`
		case "time":
			if name == "" {
				name = "time"
			}
			r.timeName = name
		case "context":
			fatal("%s: package context is not supported by the scheduler model", r.pos(is))
		}
	}
	for _, d := range r.file.Decls {
		r.walk(reflect.ValueOf(d))
	}
	if r.timeName != "" && !r.timeUsed {
		for _, is := range r.file.Imports {
			if strings.Trim(is.Path.Value, `"`) == "time" {
				is.Name = id("_")
			}
		}
	}
	if r.usesVrt {
		// add the import to the first import declaration (or create one)
		spec := &ast.ImportSpec{Name: id("vrt"), Path: &ast.BasicLit{Kind: token.STRING, Value: `"` + vrtPath + `"`}}
		added := false
		for _, d := range r.file.Decls {
			if gd, ok := d.(*ast.GenDecl); ok && gd.Tok == token.IMPORT {
				gd.Specs = append(gd.Specs, spec)
				if !gd.Lparen.IsValid() {
					gd.Lparen = gd.Pos()
					gd.Rparen = gd.End()
				}
				added = true
				break
			}
		}
		if !added {
			r.file.Decls = append([]ast.Decl{&ast.GenDecl{Tok: token.IMPORT, Specs: []ast.Spec{spec}}}, r.file.Decls...)
		}
	}
}

var (
	exprT = reflect.TypeOf((*ast.Expr)(nil)).Elem()
	stmtT = reflect.TypeOf((*ast.Stmt)(nil)).Elem()
)

// walk rewrites all Expr / Stmt children of v in place (post-order for expressions; statements
// get a pre-order hook).
func (r *rewriter) walk(v reflect.Value) {
	switch v.Kind() {
	case reflect.Interface, reflect.Ptr:
		if v.IsNil() {
			return
		}
		r.walk(v.Elem())
	case reflect.Struct:
		for i := 0; i < v.NumField(); i++ {
			f := v.Field(i)
			if !f.CanSet() {
				continue
			}
			switch {
			case f.Type() == exprT:
				if !f.IsNil() {
					f.Set(reflect.ValueOf(&struct{ E ast.Expr }{r.expr(f.Interface().(ast.Expr))}).Elem().Field(0))
				}
			case f.Type() == stmtT:
				if !f.IsNil() {
					f.Set(reflect.ValueOf(&struct{ S ast.Stmt }{r.stmt(f.Interface().(ast.Stmt))}).Elem().Field(0))
				}
			case f.Kind() == reflect.Slice && f.Type().Elem() == exprT:
				for j := 0; j < f.Len(); j++ {
					e := f.Index(j)
					if !e.IsNil() {
						e.Set(reflect.ValueOf(&struct{ E ast.Expr }{r.expr(e.Interface().(ast.Expr))}).Elem().Field(0))
					}
				}
			case f.Kind() == reflect.Slice && f.Type().Elem() == stmtT:
				for j := 0; j < f.Len(); j++ {
					e := f.Index(j)
					if !e.IsNil() {
						e.Set(reflect.ValueOf(&struct{ S ast.Stmt }{r.stmt(e.Interface().(ast.Stmt))}).Elem().Field(0))
					}
				}
			case f.Kind() == reflect.Ptr || f.Kind() == reflect.Interface || f.Kind() == reflect.Slice:
				// other node kinds (FieldList, BlockStmt pointers, []Spec, []*Field, ...)
				if f.Kind() == reflect.Slice {
					for j := 0; j < f.Len(); j++ {
						r.walk(f.Index(j))
					}
				} else if !f.IsNil() {
					// avoid walking into Ident.Obj / Scope cycles
					switch f.Interface().(type) {
					case *ast.Object, *ast.Scope, *ast.CommentGroup:
					default:
						r.walk(f)
					}
				}
			}
		}
	}
}

func (r *rewriter) isChan(e ast.Expr) bool {
	t := r.info.TypeOf(e)
	if t == nil {
		return false
	}
	_, ok := t.Underlying().(*types.Chan)
	if !ok {
		// type parameters with a channel core type
		if tp, ok2 := t.(*types.TypeParam); ok2 {
			_ = tp
		}
	}
	return ok
}

func (r *rewriter) isMap(e ast.Expr) bool {
	t := r.info.TypeOf(e)
	if t == nil {
		return false
	}
	_, ok := t.Underlying().(*types.Map)
	return ok
}

func (r *rewriter) isBuiltin(fn ast.Expr, name string) bool {
	i, ok := fn.(*ast.Ident)
	if !ok || i.Name != name {
		return false
	}
	if o := r.info.Uses[i]; o != nil {
		_, b := o.(*types.Builtin)
		return b
	}
	return true
}

func (r *rewriter) expr(e ast.Expr) ast.Expr {
	switch x := e.(type) {
	case *ast.CallExpr:
		// classify before the children are rewritten (type info is keyed by the original nodes)
		if len(x.Args) == 1 {
			switch {
			case r.isBuiltin(x.Fun, "close"):
				r.walk(reflect.ValueOf(x))
				return call(r.vrt("Close"), x.Args[0])
			case r.isBuiltin(x.Fun, "len") && r.isChan(x.Args[0]):
				r.walk(reflect.ValueOf(x))
				return call(r.vrt("Len"), x.Args[0])
			case r.isBuiltin(x.Fun, "cap") && r.isChan(x.Args[0]):
				r.walk(reflect.ValueOf(x))
				return call(r.vrt("Cap"), x.Args[0])
			}
		}
	case *ast.UnaryExpr:
		if x.Op == token.ARROW {
			r.walk(reflect.ValueOf(x))
			return call(r.vrt("Recv"), x.X)
		}
	case *ast.SelectorExpr:
		if i, ok := x.X.(*ast.Ident); ok && r.timeName != "" && i.Name == r.timeName && r.isPkg(i) {
			switch x.Sel.Name {
			case "Now", "Since", "Until", "Sleep", "After", "AfterFunc", "NewTimer", "NewTicker", "Timer", "Ticker":
				return r.vrt(x.Sel.Name)
			case "Tick":
				fatal("%s: time.Tick is not supported", r.pos(x))
			}
			r.timeUsed = true
		}
		if i, ok := x.X.(*ast.Ident); ok && r.syncName != "" && i.Name == r.syncName && r.isPkg(i) {
			switch x.Sel.Name {
			case "Mutex", "RWMutex", "WaitGroup", "Once", "Locker":
			default:
				fatal("%s: sync.%s is not supported by the scheduler model", r.pos(x), x.Sel.Name)
			}
		}
		if i, ok := x.X.(*ast.Ident); ok && r.atomicName != "" && i.Name == r.atomicName && r.isPkg(i) {
			switch x.Sel.Name {
			case "Bool", "Value", "Uint32", "Int32", "Uint64", "Int64", "Pointer":
			default:
				fatal("%s: atomic.%s is not supported by the scheduler model", r.pos(x), x.Sel.Name)
			}
		}
	case *ast.FuncLit:
		r.walk(reflect.ValueOf(x))
		return x
	}
	r.walk(reflect.ValueOf(e))
	return e
}

func (r *rewriter) isPkg(i *ast.Ident) bool {
	if o := r.info.Uses[i]; o != nil {
		_, ok := o.(*types.PkgName)
		return ok
	}
	return true
}

func isBlank(e ast.Expr) bool {
	i, ok := e.(*ast.Ident)
	return e == nil || (ok && i.Name == "_")
}

func (r *rewriter) stmt(s ast.Stmt) ast.Stmt {
	switch x := s.(type) {
	case *ast.SendStmt:
		r.walk(reflect.ValueOf(x))
		return &ast.ExprStmt{X: call(call(r.vrt("SendTo"), x.Chan), x.Value)}
	case *ast.AssignStmt:
		if len(x.Lhs) == 2 && len(x.Rhs) == 1 {
			if u, ok := x.Rhs[0].(*ast.UnaryExpr); ok && u.Op == token.ARROW {
				r.walk(reflect.ValueOf(u)) // operand
				for i := range x.Lhs {
					x.Lhs[i] = r.expr(x.Lhs[i])
				}
				x.Rhs[0] = call(r.vrt("Recv2"), u.X)
				return x
			}
		}
	case *ast.DeclStmt:
		if gd, ok := x.Decl.(*ast.GenDecl); ok {
			for _, sp := range gd.Specs {
				if vs, ok := sp.(*ast.ValueSpec); ok && len(vs.Names) == 2 && len(vs.Values) == 1 {
					if u, ok := vs.Values[0].(*ast.UnaryExpr); ok && u.Op == token.ARROW {
						r.walk(reflect.ValueOf(u))
						vs.Values[0] = call(r.vrt("Recv2"), u.X)
						return x
					}
				}
			}
		}
	case *ast.DeferStmt:
		// Call is a *ast.CallExpr field: rewrite it as an expression (defer close(ch) etc.)
		if ne, ok := r.expr(x.Call).(*ast.CallExpr); ok {
			x.Call = ne
		} else {
			fatal("%s: deferred call rewrites to a non-call", r.pos(x))
		}
		return x
	case *ast.GoStmt:
		return r.goStmt(x)
	case *ast.SelectStmt:
		return r.selectStmt(x)
	case *ast.RangeStmt:
		if r.isChan(x.X) {
			return r.rangeChan(x)
		}
		if r.isMap(x.X) {
			return r.rangeMap(x)
		}
	case *ast.LabeledStmt:
		// a label must stay attached to a for/switch/select: rewrite the inner statement; if it
		// turns into a block the label semantics would change
		inner := r.stmt(x.Stmt)
		if _, isBlock := inner.(*ast.BlockStmt); isBlock {
			if _, wasBlock := x.Stmt.(*ast.BlockStmt); !wasBlock {
				fatal("%s: labeled statement needs a rewrite that introduces a block", r.pos(x))
			}
		}
		x.Stmt = inner
		return x
	}
	r.walk(reflect.ValueOf(s))
	return s
}

func trivialArg(e ast.Expr) bool {
	switch v := e.(type) {
	case *ast.BasicLit:
		return true
	case *ast.Ident:
		return v.Name == "nil" || v.Name == "true" || v.Name == "false"
	}
	return false
}

func (r *rewriter) goStmt(g *ast.GoStmt) ast.Stmt {
	c := g.Call
	// rewrite inside the call first
	c.Fun = r.expr(c.Fun)
	for i := range c.Args {
		c.Args[i] = r.expr(c.Args[i])
	}
	var pre []ast.Stmt
	if _, lit := c.Fun.(*ast.FuncLit); !lit {
		if _, plain := c.Fun.(*ast.Ident); !plain {
			f := r.fresh("f")
			pre = append(pre, &ast.AssignStmt{Lhs: []ast.Expr{id(f)}, Tok: token.DEFINE, Rhs: []ast.Expr{c.Fun}})
			c.Fun = id(f)
		}
	}
	for i, a := range c.Args {
		if trivialArg(a) {
			continue
		}
		if c.Ellipsis.IsValid() && i == len(c.Args)-1 {
			// the variadic slice itself is evaluated eagerly too
		}
		n := r.fresh("a")
		pre = append(pre, &ast.AssignStmt{Lhs: []ast.Expr{id(n)}, Tok: token.DEFINE, Rhs: []ast.Expr{a}})
		c.Args[i] = id(n)
	}
	spawn := &ast.ExprStmt{X: call(r.vrt("Go"), &ast.FuncLit{Type: &ast.FuncType{Params: &ast.FieldList{}}, Body: &ast.BlockStmt{List: []ast.Stmt{&ast.ExprStmt{X: c}}}})}
	if len(pre) == 0 {
		return spawn
	}
	return &ast.BlockStmt{List: append(pre, spawn)}
}

func (r *rewriter) rangeChan(x *ast.RangeStmt) ast.Stmt {
	if x.Value != nil {
		fatal("%s: range over channel with two variables", r.pos(x))
	}
	ch := r.expr(x.X)
	r.walk(reflect.ValueOf(x.Body))
	ok := r.fresh("ok")
	var lhs ast.Expr = id("_")
	tok := token.DEFINE
	if !isBlank(x.Key) {
		lhs = x.Key
		if x.Tok == token.ASSIGN {
			// v = range ch: ok must still be declared
			return &ast.ForStmt{Body: &ast.BlockStmt{List: append([]ast.Stmt{
				&ast.DeclStmt{Decl: &ast.GenDecl{Tok: token.VAR, Specs: []ast.Spec{&ast.ValueSpec{Names: []*ast.Ident{id(ok)}, Type: id("bool")}}}},
				&ast.AssignStmt{Lhs: []ast.Expr{lhs, id(ok)}, Tok: token.ASSIGN, Rhs: []ast.Expr{call(r.vrt("Recv2"), ch)}},
				&ast.IfStmt{Cond: &ast.UnaryExpr{Op: token.NOT, X: id(ok)}, Body: &ast.BlockStmt{List: []ast.Stmt{&ast.BranchStmt{Tok: token.BREAK}}}},
			}, x.Body.List...)}}
		}
	}
	body := append([]ast.Stmt{
		&ast.AssignStmt{Lhs: []ast.Expr{lhs, id(ok)}, Tok: tok, Rhs: []ast.Expr{call(r.vrt("Recv2"), ch)}},
		&ast.IfStmt{Cond: &ast.UnaryExpr{Op: token.NOT, X: id(ok)}, Body: &ast.BlockStmt{List: []ast.Stmt{&ast.BranchStmt{Tok: token.BREAK}}}},
	}, x.Body.List...)
	return &ast.ForStmt{For: x.For, Body: &ast.BlockStmt{List: body}}
}

func (r *rewriter) rangeMap(x *ast.RangeStmt) ast.Stmt {
	if x.Tok == token.ASSIGN {
		fatal("%s: range over map with assignment (=) is not supported", r.pos(x))
	}
	m := r.expr(x.X)
	r.walk(reflect.ValueOf(x.Body))
	var key ast.Expr = id(r.fresh("k"))
	if !isBlank(x.Key) {
		key = x.Key
	}
	ok := r.fresh("ok")
	var val ast.Expr = id("_")
	if !isBlank(x.Value) {
		val = x.Value
	}
	// the map expression is evaluated again for the presence check: only pure operands are accepted
	switch m.(type) {
	case *ast.Ident, *ast.SelectorExpr:
	default:
		fatal("%s: range over a map expression that is not a variable or field", r.pos(x))
	}
	body := append([]ast.Stmt{
		&ast.AssignStmt{Lhs: []ast.Expr{val, id(ok)}, Tok: token.DEFINE, Rhs: []ast.Expr{&ast.IndexExpr{X: m, Index: key}}},
		&ast.IfStmt{Cond: &ast.UnaryExpr{Op: token.NOT, X: id(ok)}, Body: &ast.BlockStmt{List: []ast.Stmt{&ast.BranchStmt{Tok: token.CONTINUE}}}},
	}, x.Body.List...)
	return &ast.RangeStmt{For: x.For, Key: id("_"), Value: key, Tok: token.DEFINE, X: call(r.vrt("SortedKeys"), m), Body: &ast.BlockStmt{List: body}}
}

func (r *rewriter) selectStmt(x *ast.SelectStmt) ast.Stmt {
	var cases []ast.Expr
	var clauses []ast.Stmt
	hasDefault := "false"
	idx, rv, okv := r.fresh("i"), r.fresh("v"), r.fresh("ok")
	usedRV, usedOK := false, false
	n := 0
	for _, cl := range x.Body.List {
		cc := cl.(*ast.CommClause)
		for i := range cc.Body {
			cc.Body[i] = r.stmt(cc.Body[i])
		}
		if cc.Comm == nil {
			hasDefault = "true"
			clauses = append(clauses, &ast.CaseClause{List: nil, Body: cc.Body})
			continue
		}
		label := &ast.BasicLit{Kind: token.INT, Value: fmt.Sprint(n)}
		n++
		var pre []ast.Stmt
		switch c := cc.Comm.(type) {
		case *ast.SendStmt:
			ch, v := r.expr(c.Chan), r.expr(c.Value)
			cases = append(cases, call(call(r.vrt("CaseSend"), ch), v))
		case *ast.ExprStmt:
			u, ok := c.X.(*ast.UnaryExpr)
			if !ok || u.Op != token.ARROW {
				fatal("%s: unexpected select case", r.pos(c))
			}
			cases = append(cases, call(r.vrt("CaseRecv"), r.expr(u.X)))
		case *ast.AssignStmt:
			u, ok := c.Rhs[0].(*ast.UnaryExpr)
			if !ok || u.Op != token.ARROW {
				fatal("%s: unexpected select case", r.pos(c))
			}
			ch := r.expr(u.X)
			// the channel operand is needed twice (case construction and value conversion): only
			// pure operands are accepted
			switch ch.(type) {
			case *ast.Ident, *ast.SelectorExpr:
			default:
				fatal("%s: select receive with assignment from a non-trivial channel expression", r.pos(c))
			}
			cases = append(cases, call(r.vrt("CaseRecv"), ch))
			usedRV = true
			rhs := []ast.Expr{call(r.vrt("RecvVal"), ch, id(rv))}
			lhs := []ast.Expr{r.expr(c.Lhs[0])}
			if len(c.Lhs) == 2 {
				usedOK = true
				lhs = append(lhs, r.expr(c.Lhs[1]))
				rhs = append(rhs, id(okv))
			}
			as := &ast.AssignStmt{Lhs: lhs, Tok: c.Tok, Rhs: rhs}
			pre = append(pre, as)
			if c.Tok == token.DEFINE {
				// silence "declared and not used" exactly as the original would have required use
				for _, l := range lhs {
					if !isBlank(l) {
						pre = append(pre, &ast.AssignStmt{Lhs: []ast.Expr{id("_")}, Tok: token.ASSIGN, Rhs: []ast.Expr{l}})
					}
				}
			}
		default:
			fatal("%s: unexpected select case", r.pos(cc))
		}
		clauses = append(clauses, &ast.CaseClause{List: []ast.Expr{label}, Body: append(pre, cc.Body...)})
	}
	if hasDefault == "false" {
		// keeps the statement terminating when every case terminates (as the select was)
		clauses = append(clauses, &ast.CaseClause{Body: []ast.Stmt{&ast.ExprStmt{X: call(id("panic"), &ast.BasicLit{Kind: token.STRING, Value: `"vrt: impossible select index"`})}}})
	}
	args := append([]ast.Expr{id(hasDefault)}, cases...)
	lhs := []ast.Expr{id(idx), id("_"), id("_")}
	if usedRV {
		lhs[1] = id(rv)
	}
	if usedOK {
		lhs[2] = id(okv)
	}
	return &ast.SwitchStmt{Switch: x.Select,
		Init: &ast.AssignStmt{Lhs: lhs, Tok: token.DEFINE, Rhs: []ast.Expr{call(r.vrt("Select"), args...)}},
		Tag:  id(idx), Body: &ast.BlockStmt{List: clauses}}
}
