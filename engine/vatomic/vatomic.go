// Package vatomic replaces sync/atomic in rewritten code: the real atomic operation preceded by
// a scheduling point.
package vatomic

import (
	"sync/atomic"

	"hop.computer/hop/zzverif/vrt"
)

type Bool struct{ v atomic.Bool }

func (b *Bool) Load() bool   { vrt.PointOp("atomic.Load"); return b.v.Load() }
func (b *Bool) Store(x bool) { vrt.PointOp("atomic.Store"); b.v.Store(x) }
func (b *Bool) Swap(x bool) bool {
	vrt.PointOp("atomic.Swap")
	return b.v.Swap(x)
}
func (b *Bool) CompareAndSwap(o, n bool) bool {
	vrt.PointOp("atomic.CAS")
	return b.v.CompareAndSwap(o, n)
}

type Value struct{ v atomic.Value }

func (b *Value) Load() any   { vrt.PointOp("atomic.Load"); return b.v.Load() }
func (b *Value) Store(x any) { vrt.PointOp("atomic.Store"); b.v.Store(x) }
func (b *Value) Swap(x any) any {
	vrt.PointOp("atomic.Swap")
	return b.v.Swap(x)
}
func (b *Value) CompareAndSwap(o, n any) bool {
	vrt.PointOp("atomic.CAS")
	return b.v.CompareAndSwap(o, n)
}

type Uint32 struct{ v atomic.Uint32 }

func (b *Uint32) Load() uint32   { vrt.PointOp("atomic.Load"); return b.v.Load() }
func (b *Uint32) Store(x uint32) { vrt.PointOp("atomic.Store"); b.v.Store(x) }
func (b *Uint32) Add(x uint32) uint32 {
	vrt.PointOp("atomic.Add")
	return b.v.Add(x)
}
func (b *Uint32) Swap(x uint32) uint32 {
	vrt.PointOp("atomic.Swap")
	return b.v.Swap(x)
}
func (b *Uint32) CompareAndSwap(o, n uint32) bool {
	vrt.PointOp("atomic.CAS")
	return b.v.CompareAndSwap(o, n)
}

type Int32 struct{ v atomic.Int32 }

func (b *Int32) Load() int32   { vrt.PointOp("atomic.Load"); return b.v.Load() }
func (b *Int32) Store(x int32) { vrt.PointOp("atomic.Store"); b.v.Store(x) }
func (b *Int32) Add(x int32) int32 {
	vrt.PointOp("atomic.Add")
	return b.v.Add(x)
}
func (b *Int32) Swap(x int32) int32 {
	vrt.PointOp("atomic.Swap")
	return b.v.Swap(x)
}
func (b *Int32) CompareAndSwap(o, n int32) bool {
	vrt.PointOp("atomic.CAS")
	return b.v.CompareAndSwap(o, n)
}

type Uint64 struct{ v atomic.Uint64 }

func (b *Uint64) Load() uint64   { vrt.PointOp("atomic.Load"); return b.v.Load() }
func (b *Uint64) Store(x uint64) { vrt.PointOp("atomic.Store"); b.v.Store(x) }
func (b *Uint64) Add(x uint64) uint64 {
	vrt.PointOp("atomic.Add")
	return b.v.Add(x)
}
func (b *Uint64) Swap(x uint64) uint64 {
	vrt.PointOp("atomic.Swap")
	return b.v.Swap(x)
}
func (b *Uint64) CompareAndSwap(o, n uint64) bool {
	vrt.PointOp("atomic.CAS")
	return b.v.CompareAndSwap(o, n)
}

type Int64 struct{ v atomic.Int64 }

func (b *Int64) Load() int64   { vrt.PointOp("atomic.Load"); return b.v.Load() }
func (b *Int64) Store(x int64) { vrt.PointOp("atomic.Store"); b.v.Store(x) }
func (b *Int64) Add(x int64) int64 {
	vrt.PointOp("atomic.Add")
	return b.v.Add(x)
}
func (b *Int64) Swap(x int64) int64 {
	vrt.PointOp("atomic.Swap")
	return b.v.Swap(x)
}
func (b *Int64) CompareAndSwap(o, n int64) bool {
	vrt.PointOp("atomic.CAS")
	return b.v.CompareAndSwap(o, n)
}

type Pointer[T any] struct{ v atomic.Pointer[T] }

func (b *Pointer[T]) Load() *T   { vrt.PointOp("atomic.Load"); return b.v.Load() }
func (b *Pointer[T]) Store(x *T) { vrt.PointOp("atomic.Store"); b.v.Store(x) }
func (b *Pointer[T]) Swap(x *T) *T {
	vrt.PointOp("atomic.Swap")
	return b.v.Swap(x)
}
func (b *Pointer[T]) CompareAndSwap(o, n *T) bool {
	vrt.PointOp("atomic.CAS")
	return b.v.CompareAndSwap(o, n)
}
