module vinstr

go 1.24
