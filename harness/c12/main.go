// C12 — Kravatte-SANSE AEAD vs an independent Farfalle/Deck-SANSE reference: conformance over
// key lengths 1..199 and block-boundary |P|,|A| grids, sessions, every single-bit tamper,
// key-byte sensitivity, aliasing layouts, raw Kra/Vatte with split inputs; both builds.
package main

import (
	"bufio"
	"bytes"
	"crypto/cipher"
	"encoding/hex"
	"flag"
	"fmt"
	"os"
	"path/filepath"
	"strings"

	"hop.computer/hop/kravatte"
	"hop.computer/hop/zzverif/refkeccak"
	rk "hop.computer/hop/zzverif/refkravatte"
	"hop.computer/hop/zzverif/vk"
)

var genericBin = flag.String("bin-generic", "", "same harness built with the generic permutation")

func fill(n, salt int) []byte {
	b := make([]byte, n)
	for i := range b {
		b[i] = byte(i*11 + salt*29 + 3)
	}
	return b
}

func keyOf(l, filling int) []byte {
	k := make([]byte, l)
	for i := range k {
		switch filling {
		case 0:
			k[i] = byte(i)
		case 1:
			k[i] = 0xff
		default:
			k[i] = byte(i*37 + 5)
		}
	}
	return k
}

func parseVec(path string) ([][2]string, error) {
	f, err := os.Open(path)
	if err != nil {
		return nil, err
	}
	defer f.Close()
	sc := bufio.NewScanner(f)
	sc.Buffer(make([]byte, 1<<20), 1<<22)
	var out [][2]string
	for sc.Scan() {
		l := sc.Text()
		i := strings.Index(l, ":")
		if i < 0 {
			continue
		}
		out = append(out, [2]string{l[:i], strings.ReplaceAll(strings.TrimSpace(l[i+1:]), " ", "")})
	}
	return out, nil
}

func label(s string) (string, int) {
	i := strings.Index(s, "[")
	n := 0
	fmt.Sscanf(s[i:], "[%d]", &n)
	return s[:i], n
}

// anchor replays the repository's XKCP vector files on the reference.
func anchor() error {
	if err := refkeccak.Validate(); err != nil {
		return err
	}
	repo := os.Getenv("VERIF_REPO")
	// Kravatte: strings accumulate in the history; 'in' parts concatenate until 'last'.
	for _, fn := range []string{"xkcp-kravatte.txt", "xkcp.txt"} {
		v, err := parseVec(filepath.Join(repo, "kravatte/testdata", fn))
		if err != nil {
			return err
		}
		var key []byte
		var hist []rk.Bits
		var cur []byte
		checked := 0
		for _, e := range v {
			name, n := label(e[0])
			data, _ := hex.DecodeString(e[1])
			switch name {
			case "key":
				key = data
			case "in":
				cur = append(cur, data...)
			case "last":
				cur = append(cur, data...)
				hist = append(hist, rk.FromBytes(cur))
				cur = nil
			case "inbits":
				// The XKCP transcript passes a final partial byte whose unused high bits are not
				// zero; XKCP (and the port) OR the padding bit into that byte unmasked, so this
				// entry is outside the bit-string specification. Outputs after it are not anchors.
				_ = n
				hist = nil
				key = nil
			case "kravatin":
				hist = append(hist, rk.FromBytes(data))
			case "out", "kravatout":
				if key == nil {
					continue
				}
				if got := rk.F(key, hist, len(data)); !bytes.Equal(got, data) {
					return fmt.Errorf("refkravatte disagrees with %s entry %s", fn, e[0])
				}
				checked++
			case "dumpK":
				if key == nil {
					continue
				}
				k := rk.MaskKey(key)
				if !bytes.Equal(k[:], data) {
					return fmt.Errorf("refkravatte mask derivation disagrees with %s", fn)
				}
			}
		}
		if checked < 2 {
			return fmt.Errorf("%s: too few outputs anchored (%d)", fn, checked)
		}
	}
	v, err := parseVec(filepath.Join(repo, "kravatte/testdata/xkcp-sanse.txt"))
	if err != nil {
		return err
	}
	var key, p, a, w, t []byte
	for _, e := range v {
		name, _ := label(e[0])
		data, _ := hex.DecodeString(e[1])
		switch name {
		case "key":
			key = data
		case "plaintext":
			p = data
		case "ad":
			a = data
		case "wrap":
			w = data
		case "tag":
			t = data
		}
	}
	if len(t) != 32 || len(p) == 0 {
		return fmt.Errorf("xkcp-sanse.txt: unexpected shape")
	}
	if got := rk.NewSanse(key).Wrap(a, p); !bytes.Equal(got, append(append([]byte{}, w...), t...)) {
		return fmt.Errorf("refsanse disagrees with xkcp-sanse.txt")
	}
	return nil
}

type sealCase struct {
	KeyLen  int `json:"key_len"`
	Filling int `json:"key_filling"`
	P       int `json:"p_len"`
	A       int `json:"a_len"`
}

func newAEAD(key []byte) (cipher.AEAD, string) {
	var a cipher.AEAD
	var err error
	if pn := vk.Try(func() { a, err = kravatte.NewSANSE(key) }); pn != "" {
		return nil, pn
	}
	if err != nil {
		return nil, err.Error()
	}
	return a, ""
}

func checkSeal(r *vk.Run, c sealCase) {
	r.Eval()
	key := keyOf(c.KeyLen, c.Filling)
	p, a := fill(c.P, 1), fill(c.A, 2)
	id := fmt.Sprintf("seal:k=%d/%d,p=%d,a=%d", c.KeyLen, c.Filling, c.P, c.A)
	s, bad := newAEAD(key)
	if bad != "" {
		r.Violation(id, "NewSANSE refused a "+fmt.Sprint(c.KeyLen)+"-byte key: "+bad, c)
		return
	}
	var got []byte
	if pn := vk.Try(func() { got = s.Seal(nil, nil, p, a) }); pn != "" {
		r.Violation(id, "Seal "+pn, c)
		return
	}
	want := rk.NewSanse(key).Wrap(a, p)
	if !bytes.Equal(got, want) {
		r.Violation(id, fmt.Sprintf("Seal output differs from Deck-SANSE reference (len %d, first differing byte %d)", len(got), firstDiff(got, want)), c)
		return
	}
	o, _ := newAEAD(key)
	back, err := o.Open(nil, nil, got, a)
	if err != nil || !bytes.Equal(back, p) {
		r.Violation(id, fmt.Sprintf("Open(Seal(x)) != x (err=%v)", err), c)
	}
	r.Distinct(fmt.Sprintf("%d/%d/%d", c.KeyLen, c.P, c.A))
}

func firstDiff(a, b []byte) int {
	for i := range a {
		if i >= len(b) || a[i] != b[i] {
			return i
		}
	}
	return len(a)
}

func main() {
	r := vk.New("C12", "exploration")
	if err := anchor(); err != nil {
		r.EngineError("reference not anchored: %v", err)
		r.Finish()
	}
	if r.ReplayFile != "" {
		var c sealCase
		if err := r.LoadReplay(&c); err != nil {
			r.EngineError("replay: %v", err)
		} else {
			checkSeal(r, c)
		}
		r.Finish()
	}
	grid := []int{0, 1, 7, 8, 9, 199, 200, 201, 399, 400, 401, 599, 600, 601, 1000}
	if r.Thorough() {
		grid = append(grid, 4000, 64535)
	} else {
		grid = append(grid, 1401) // ~ the transport's maximum packet payload
	}
	r.SetRule("Seal/Open on the real AEAD vs refsanse: key length 1..199 x 3 fillings x (|P|,|A|) shapes (all pairs of the boundary grid for key length 16, diagonal + boundary cross otherwise); sessions of <=3 (quick) / <=5 (thorough) messages; thorough adds the full (|P|,|A|) grid for 16 more key lengths and every |P| in 0..1024; every single-bit flip of ciphertext||tag and of A; every key byte flipped for every key length; aliasing layouts; raw Kra/Vatte with every boundary-adjacent split; both permutation builds. distinct_nontrivial = distinct (key length,|P|,|A|) shapes whose Seal output was compared with the reference, measured.")

	// 1. conformance
	var cases []sealCase
	for _, p := range grid {
		for _, a := range grid {
			cases = append(cases, sealCase{16, 0, p, a})
		}
	}
	cross := []int{0, 1, 199, 200, 201, 400}
	for l := 1; l <= 199; l++ {
		for f := 0; f < 3; f++ {
			for _, n := range cross {
				cases = append(cases, sealCase{l, f, n, n}, sealCase{l, f, n, 0}, sealCase{l, f, 0, n}, sealCase{l, f, n, 17})
			}
		}
	}
	if r.Thorough() {
		// the full grid x grid for key lengths around every lane / block edge, and every plaintext
		// length 0..1024 for two key lengths
		for _, l := range []int{1, 7, 8, 9, 15, 17, 24, 31, 32, 33, 64, 127, 128, 129, 198, 199} {
			for _, p := range grid {
				for _, a := range grid {
					cases = append(cases, sealCase{l, 1, p, a})
				}
			}
		}
		for _, l := range []int{16, 33} {
			for p := 0; p <= 1024; p++ {
				cases = append(cases, sealCase{l, 2, p, 0}, sealCase{l, 2, p, 17}, sealCase{l, 2, 17, p})
			}
		}
	}
	r.Parallel(len(cases), func(i int) { checkSeal(r, cases[i]) })
	r.Set("conformance_cases", len(cases))
	r.Sample(cases[len(cases)/2])
	// keys of 200+ bytes must be refused, not truncated
	for _, l := range []int{200, 201, 400} {
		r.Eval()
		if s, bad := newAEAD(keyOf(l, 0)); bad == "" && s != nil {
			r.Violation(fmt.Sprintf("key:len=%d", l), "NewSANSE accepted a key longer than 199 bytes", l)
		}
	}

	// 2. sessions: all sequences of <=3 messages over sizes {0,1,200,201} for P and {0,17} for A
	type msg struct{ P, A int }
	var msgs []msg
	for _, p := range []int{0, 1, 200, 201} {
		for _, a := range []int{0, 17} {
			msgs = append(msgs, msg{p, a})
		}
	}
	maxSession := 3
	if r.Thorough() {
		maxSession = 5 // 8 + 64 + ... + 32768 sequences
	}
	var seqs [][]msg
	var rec func(cur []msg)
	rec = func(cur []msg) {
		if len(cur) > 0 {
			seqs = append(seqs, append([]msg{}, cur...))
		}
		if len(cur) == maxSession {
			return
		}
		for _, m := range msgs {
			rec(append(cur, m))
		}
	}
	rec(nil)
	// long sessions: the session bit e and the history keep evolving; 16 messages per session
	// over cyclic size patterns (all shifts of each pattern)
	patterns := [][]msg{{{0, 0}}, {{1, 0}}, {{0, 17}}, {{1, 17}}, {{200, 0}, {0, 17}}, {{201, 17}, {1, 0}, {0, 0}}, {{0, 0}, {1, 17}, {200, 17}, {201, 0}, {399, 1}}}
	for _, pat := range patterns {
		for shift := range pat {
			var sq []msg
			for k := 0; k < 16; k++ {
				sq = append(sq, pat[(k+shift)%len(pat)])
			}
			seqs = append(seqs, sq)
		}
	}
	r.Set("long_session_length", 16)
	r.Parallel(len(seqs), func(i int) {
		r.Eval()
		key := keyOf(16, 2)
		snd, _ := newAEAD(key)
		rcv, _ := newAEAD(key)
		ref := rk.NewSanse(key)
		for j, m := range seqs[i] {
			p, a := fill(m.P, j), fill(m.A, 10+j)
			id := fmt.Sprintf("session:len=%d:%v@%d", len(seqs[i]), seqs[i][:min(3, len(seqs[i]))], j)
			var ct []byte
			if pn := vk.Try(func() { ct = snd.Seal(nil, nil, p, a) }); pn != "" {
				r.Violation(id, "Seal "+pn, seqs[i])
				return
			}
			if want := ref.Wrap(a, p); !bytes.Equal(ct, want) {
				r.Violation(id, "session message differs from reference", seqs[i])
				return
			}
			back, err := rcv.Open(nil, nil, ct, a)
			if err != nil || !bytes.Equal(back, p) {
				r.Violation(id, fmt.Sprintf("receiver instance failed to open message %d: %v", j, err), seqs[i])
				return
			}
		}
	})
	r.Set("session_sequences", len(seqs))

	// 3. tamper: every single bit of ciphertext||tag and of A
	tg := []int{0, 1, 200, 201}
	if r.Thorough() {
		tg = append(tg, 401, 601)
	}
	type tc struct{ P, A int }
	var tcs []tc
	for _, p := range tg {
		for _, a := range tg {
			tcs = append(tcs, tc{p, a})
		}
	}
	r.Parallel(len(tcs), func(i int) {
		c := tcs[i]
		key := keyOf(16, 0)
		p, a := fill(c.P, 5), fill(c.A, 6)
		s, _ := newAEAD(key)
		ct := s.Seal(nil, nil, p, a)
		for bit := 0; bit < 8*len(ct); bit++ {
			r.Eval()
			m := append([]byte{}, ct...)
			m[bit/8] ^= 1 << (bit % 8)
			o, _ := newAEAD(key)
			if _, err := o.Open(nil, nil, m, a); err == nil {
				region := "ciphertext"
				if bit/8 >= len(p) {
					region = fmt.Sprintf("tag byte %d", bit/8-len(p))
				}
				r.Violation(fmt.Sprintf("tamper:%s:p=%d,a=%d", region, c.P, c.A), fmt.Sprintf("Open accepted a message with bit %d of %s flipped", bit, region), map[string]int{"p": c.P, "a": c.A, "bit": bit})
			}
		}
		for bit := 0; bit < 8*len(a); bit++ {
			r.Eval()
			m := append([]byte{}, a...)
			m[bit/8] ^= 1 << (bit % 8)
			o, _ := newAEAD(key)
			if _, err := o.Open(nil, nil, ct, m); err == nil {
				r.Violation(fmt.Sprintf("tamper:ad:p=%d,a=%d", c.P, c.A), fmt.Sprintf("Open accepted with bit %d of the associated data flipped", bit), map[string]int{"p": c.P, "a": c.A, "adbit": bit})
			}
		}
		// truncated / extended ciphertext
		for _, m := range [][]byte{ct[:len(ct)-1], append(append([]byte{}, ct...), 0), ct[:min(len(ct), 31)]} {
			r.Eval()
			o, _ := newAEAD(key)
			var err error
			if pn := vk.Try(func() { _, err = o.Open(nil, nil, m, a) }); pn != "" {
				r.Violation(fmt.Sprintf("tamper:len:p=%d,a=%d", c.P, c.A), "Open "+pn, nil)
			} else if err == nil {
				r.Violation(fmt.Sprintf("tamper:len:p=%d,a=%d", c.P, c.A), "Open accepted a message of altered length", nil)
			}
		}
	})

	// 4. key sensitivity: every byte of every key length
	r.Parallel(199, func(i int) {
		l := i + 1
		key := keyOf(l, 2)
		s, bad := newAEAD(key)
		if bad != "" {
			return // already reported by conformance
		}
		base := s.Seal(nil, nil, fill(9, 1), fill(3, 2))
		for b := 0; b < l; b++ {
			r.Eval()
			k2 := append([]byte{}, key...)
			k2[b] ^= 0x40
			s2, _ := newAEAD(k2)
			if s2 == nil {
				continue
			}
			if bytes.Equal(base, s2.Seal(nil, nil, fill(9, 1), fill(3, 2))) {
				r.Violation(fmt.Sprintf("keybyte:len=%d", l), fmt.Sprintf("changing key byte %d of a %d-byte key does not change the sealed output", b, l), map[string]int{"key_len": l, "byte": b})
				break
			}
		}
	})

	// 5. aliasing
	aliasing(r)

	// 6. raw Kra/Vatte with split inputs and outputs
	rawSplit(r)

	r.Set("build", "assembly permutation (the repository has no pure-Go 6-round Keccak-p: kravatte/keccakf.go panics as unimplemented)")
	if *genericBin != "" {
		r.RunChild("generic", *genericBin)
	}
	r.Assume("refkravatte/refsanse written from the Farfalle paper; anchored at start-up to the repository's XKCP Kravatte and SANSE vector files and refkeccak to x/crypto/sha3")
	r.Assume("cryptographic strength is not in scope: tamper checks decide that every bit is covered by the tag comparison, not collision resistance")
	r.Finish()
}

func aliasing(r *vk.Run) {
	key := keyOf(16, 0)
	for _, pl := range []int{0, 1, 16, 200, 201} {
		for _, al := range []int{0, 16} {
			p, a := fill(pl, 7), fill(al, 8)
			s0, _ := newAEAD(key)
			want := s0.Seal(nil, nil, p, a)
			// layouts of dst relative to plaintext inside one backing array
			type layout struct {
				name string
				run  func(buf []byte) (out []byte, before []byte, lo, hi int)
			}
			const pad = 64
			mk := func() []byte {
				buf := make([]byte, pad+pl+32+pad+al+pad)
				for i := range buf {
					buf[i] = 0xEE
				}
				copy(buf[pad:], p)
				copy(buf[pad+pl+32+pad:], a)
				return buf
			}
			layouts := []struct {
				name   string
				dstOff int // dst = buf[dstOff:dstOff] with capacity to the end
			}{
				{"dst=pt[:0]", pad},
				{"dst overlaps pt by 1 (dst starts 1 before pt end)", pad + max(pl-1, 0)},
				{"dst starts 16 before pt", pad - 16},
				{"dst starts 1 after pt start", pad + 1},
				{"dst inside A", pad + pl + 32 + pad},
			}
			for _, l := range layouts {
				r.Eval()
				buf := mk()
				pt := buf[pad : pad+pl]
				ad := buf[pad+pl+32+pad : pad+pl+32+pad+al]
				if l.dstOff+pl+32 > len(buf) {
					continue
				}
				dst := buf[l.dstOff:l.dstOff:len(buf)]
				s, _ := newAEAD(key)
				var out []byte
				id := fmt.Sprintf("alias:seal:%s:p=%d,a=%d", l.name, pl, al)
				if pn := vk.Try(func() { out = s.Seal(dst, nil, pt, ad) }); pn != "" {
					r.Violation(id, "Seal "+pn, nil)
					continue
				}
				if !bytes.Equal(out, want) {
					r.Violation(id, "Seal with overlapping dst returns a different result than the non-aliased call", nil)
					continue
				}
				// bytes outside the returned slice and outside nothing else must be untouched
				ref := mk()
				for i := range buf {
					inOut := i >= l.dstOff && i < l.dstOff+len(out)
					if !inOut && buf[i] != ref[i] {
						r.Violation(id, fmt.Sprintf("Seal modified byte %d outside its result", i), nil)
						break
					}
				}
				// Open in place
				r.Eval()
				buf2 := make([]byte, pad+len(want)+pad)
				for i := range buf2 {
					buf2[i] = 0xEE
				}
				copy(buf2[pad:], want)
				ct := buf2[pad : pad+len(want)]
				o, _ := newAEAD(key)
				var back []byte
				var err error
				id2 := fmt.Sprintf("alias:open:p=%d,a=%d", pl, al)
				if pn := vk.Try(func() { back, err = o.Open(ct[:0], nil, ct, a) }); pn != "" {
					r.Violation(id2, "Open "+pn, nil)
				} else if err != nil || !bytes.Equal(back, p) {
					r.Violation(id2, fmt.Sprintf("in-place Open failed: %v", err), nil)
				} else {
					for i := range buf2 {
						if (i < pad || i >= pad+len(want)) && buf2[i] != 0xEE {
							r.Violation(id2, "Open modified bytes outside the ciphertext buffer", nil)
							break
						}
					}
				}
			}
			// append semantics: dst with existing content must be preserved
			r.Eval()
			pre := []byte("prefix")
			s, _ := newAEAD(key)
			out := s.Seal(append([]byte{}, pre...), nil, p, a)
			if !bytes.Equal(out, append(append([]byte{}, pre...), want...)) {
				r.Violation(fmt.Sprintf("alias:append:p=%d,a=%d", pl, al), "Seal does not append to dst", nil)
			}
		}
	}
}

func rawSplit(r *vk.Run) {
	key := keyOf(16, 0)
	for _, n := range []int{0, 1, 199, 200, 201, 399, 400, 401, 450} {
		in := fill(n, 9)
		want := rk.F(key, []rk.Bits{rk.FromBytes(in)}, 450)
		splits := map[int]bool{}
		for _, s := range []int{0, 1, 8, 199, 200, 201, 399, 400, 401, n - 1, n} {
			if s >= 0 && s <= n {
				splits[s] = true
			}
		}
		for s1 := range splits {
			for s2 := range splits {
				if s2 < s1 {
					continue
				}
				for _, o1 := range []int{0, 1, 16, 199, 200, 201, 250} {
					r.Eval()
					var kv kravatte.Kravatte
					id := fmt.Sprintf("raw:n=%d,split=%d/%d,out=%d", n, s1, s2, o1)
					bad := ""
					out := make([]byte, 450)
					pn := vk.Try(func() {
						if kv.RefMaskInitialize(key) != 0 {
							bad = "RefMaskInitialize failed"
							return
						}
						if kv.Kra(in[:s1], 8*s1, kravatte.FlagNone) != 0 || kv.Kra(in[s1:s2], 8*(s2-s1), kravatte.FlagNone) != 0 || kv.Kra(in[s2:], 8*(n-s2), kravatte.FlagLastPart) != 0 {
							bad = "Kra returned an error"
							return
						}
						if o1 > 0 {
							if kv.Vatte(out[:o1], 8*o1, kravatte.FlagNone) != 0 {
								bad = "Vatte(part 1) returned an error"
								return
							}
						}
						if kv.Vatte(out[o1:], 8*(450-o1), kravatte.FlagLastPart) != 0 {
							bad = "Vatte(last) returned an error"
						}
					})
					if pn != "" {
						bad = pn
					}
					if bad == "" && !bytes.Equal(out, want) {
						bad = fmt.Sprintf("output differs from F_K (first differing byte %d)", firstDiff(out, want))
					}
					if bad != "" {
						r.Violation(id, bad, map[string]int{"n": n, "s1": s1, "s2": s2, "o1": o1})
					}
				}
			}
		}
	}
}
