//go:build verif

package kravatte

// VerifPermute exposes the 6-round permutation selected by the build.
func VerifPermute(s *[25]uint64) { keccakF1600(s) }
