#!/bin/sh
# usage: tools/seedtest.sh <id> <tier> <patch>  — apply a seeded change to /repo, run the check, undo
id=$1; tier=$2; patch=$3
git -C /repo apply $patch || git -C /repo apply --3way $patch || { echo "PATCH DOES NOT APPLY: $patch"; git -C /repo checkout -- .; exit 2; }
(cd /verif && ./check $id $tier 2>&1 | grep -E "SUMMARY|VIOLATION|ENGINE|KNOWN" | cut -c1-300 | head -${MUT_LINES:-3})
git -C /repo checkout -- . ; git -C /repo status --short | grep -v '^??' | head
