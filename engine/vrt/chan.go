package vrt

import (
	"fmt"
	"reflect"
	"sort"
)

// vchan models one Go channel (hchan): FIFO buffer, FIFO queues of parked receivers and senders.
type vchan struct {
	id     int
	cap    int
	buf    []any
	closed bool
	recvq  []*waiter
	sendq  []*waiter
	keep   any // reference to the real channel: its address is the key and must not be reused
}

type selState struct {
	fired bool
}

type waiter struct {
	t   *thread
	sel *selState // shared by all cases of one select / nil for plain ops... always set
	idx int       // case index to report
	val any       // value to send
}

func (w *waiter) live() bool { return !w.sel.fired }

func (s *Sched) ch(c any) *vchan {
	v := reflect.ValueOf(c)
	if v.Kind() != reflect.Chan {
		panic("vrt: not a channel")
	}
	if v.IsNil() {
		return nil
	}
	p := v.Pointer()
	vc, ok := s.chans[p]
	if !ok {
		vc = &vchan{id: len(s.chans), cap: v.Cap(), keep: c}
		s.chans[p] = vc
	}
	return vc
}

func firstLive(q *[]*waiter) *waiter {
	for len(*q) > 0 {
		w := (*q)[0]
		*q = (*q)[1:]
		if w.live() {
			return w
		}
	}
	return nil
}

func hasLive(q []*waiter) bool {
	for _, w := range q {
		if w.live() {
			return true
		}
	}
	return false
}

// sendNow performs a send that is known to be possible; returns false if it is not.
func (s *Sched) sendNow(c *vchan, v any) bool {
	if w := firstLive(&c.recvq); w != nil {
		w.sel.fired = true
		w.t.wakeIdx, w.t.wakeVal, w.t.wakeOK = w.idx, v, true
		s.wake(w.t)
		return true
	}
	if len(c.buf) < c.cap {
		c.buf = append(c.buf, v)
		return true
	}
	return false
}

// recvNow performs a receive that is known to be possible.
func (s *Sched) recvNow(c *vchan) (v any, ok, done bool) {
	if len(c.buf) > 0 {
		v = c.buf[0]
		c.buf = c.buf[1:]
		if w := firstLive(&c.sendq); w != nil {
			w.sel.fired = true
			c.buf = append(c.buf, w.val)
			w.t.wakeIdx, w.t.wakeOK = w.idx, true
			s.wake(w.t)
		}
		return v, true, true
	}
	if w := firstLive(&c.sendq); w != nil {
		w.sel.fired = true
		w.t.wakeIdx, w.t.wakeOK = w.idx, true
		s.wake(w.t)
		return w.val, true, true
	}
	if c.closed {
		return nil, false, true
	}
	return nil, false, false
}

func chName(c *vchan) string {
	if c == nil {
		return "nil-chan"
	}
	return fmt.Sprintf("chan#%d", c.id)
}

// blockForever parks the thread on a nil channel.
func (s *Sched) blockForever(t *thread, what string) {
	for {
		s.block(t, what+" on nil channel (forever)")
	}
}

func (s *Sched) send(c any, v any) {
	t := s.point("send")
	vc := s.ch(c)
	if vc == nil {
		s.blockForever(t, "send")
	}
	if vc.closed {
		panic("send on closed channel")
	}
	if s.sendNow(vc, v) {
		return
	}
	w := &waiter{t: t, sel: &selState{}, val: v}
	vc.sendq = append(vc.sendq, w)
	s.block(t, "send on "+chName(vc))
	if t.wakePanic != "" {
		p := t.wakePanic
		t.wakePanic = ""
		panic(p)
	}
}

func (s *Sched) recv(c any) (any, bool) {
	t := s.point("recv")
	vc := s.ch(c)
	if vc == nil {
		s.blockForever(t, "receive")
	}
	if v, ok, done := s.recvNow(vc); done {
		return v, ok
	}
	w := &waiter{t: t, sel: &selState{}}
	vc.recvq = append(vc.recvq, w)
	s.block(t, "receive on "+chName(vc))
	return t.wakeVal, t.wakeOK
}

func (s *Sched) closeCh(c any) {
	if !s.cfg.NoReleasePoints {
		s.point("close")
	}
	vc := s.ch(c)
	if vc == nil {
		panic("close of nil channel")
	}
	if vc.closed {
		panic("close of closed channel")
	}
	vc.closed = true
	for {
		w := firstLive(&vc.recvq)
		if w == nil {
			break
		}
		w.sel.fired = true
		w.t.wakeIdx, w.t.wakeVal, w.t.wakeOK = w.idx, nil, false
		s.wake(w.t)
	}
	for {
		w := firstLive(&vc.sendq)
		if w == nil {
			break
		}
		w.sel.fired = true
		w.t.wakeIdx = w.idx
		w.t.wakePanic = "send on closed channel"
		s.wake(w.t)
	}
}

// Case is one select case.
type Case struct {
	ch   any
	send bool
	val  any
}

func (s *Sched) selectOp(hasDefault bool, cases []Case) (int, any, bool) {
	t := s.point("select")
	vcs := make([]*vchan, len(cases))
	var ready []int
	for i, c := range cases {
		vc := s.ch(c.ch)
		vcs[i] = vc
		if vc == nil {
			continue
		}
		if c.send {
			if vc.closed || hasLive(vc.recvq) || len(vc.buf) < vc.cap {
				ready = append(ready, i)
			}
		} else if len(vc.buf) > 0 || hasLive(vc.sendq) || vc.closed {
			ready = append(ready, i)
		}
	}
	if len(ready) > 0 {
		k := 0
		if len(ready) > 1 {
			k = s.decide(KSelect, len(ready), false, "")
		}
		i := ready[k]
		if cases[i].send {
			if vcs[i].closed {
				panic("send on closed channel")
			}
			s.sendNow(vcs[i], cases[i].val)
			return i, nil, false
		}
		v, ok, _ := s.recvNow(vcs[i])
		return i, v, ok
	}
	if hasDefault {
		return -1, nil, false
	}
	st := &selState{}
	parked := false
	for i, c := range cases {
		if vcs[i] == nil {
			continue
		}
		parked = true
		w := &waiter{t: t, sel: st, idx: i, val: c.val}
		if c.send {
			vcs[i].sendq = append(vcs[i].sendq, w)
		} else {
			vcs[i].recvq = append(vcs[i].recvq, w)
		}
	}
	if !parked {
		s.blockForever(t, "select with no live case")
	}
	s.block(t, "select")
	if t.wakePanic != "" {
		p := t.wakePanic
		t.wakePanic = ""
		panic(p)
	}
	return t.wakeIdx, t.wakeVal, t.wakeOK
}

// ---- generic front end used by the rewritten code ----

func conv[T any](v any) T {
	if v == nil {
		var z T
		return z
	}
	return v.(T)
}

// SendTo is the rewritten form of `ch <- v`: vrt.SendTo(ch)(v).
func SendTo[T any](ch chan<- T) func(T) {
	return func(v T) {
		if S == nil {
			ch <- v
			return
		}
		if S.aborting {
			return
		}
		S.send(ch, v)
	}
}

// Recv is `<-ch`.
func Recv[T any](ch <-chan T) T {
	if S == nil {
		return <-ch
	}
	v, _ := S.recv(ch)
	return conv[T](v)
}

// Recv2 is `v, ok := <-ch`.
func Recv2[T any](ch <-chan T) (T, bool) {
	if S == nil {
		v, ok := <-ch
		return v, ok
	}
	v, ok := S.recv(ch)
	return conv[T](v), ok
}

// Close is close(ch).
func Close[T any](ch chan<- T) {
	if S == nil {
		close(ch)
		return
	}
	if S.aborting {
		return
	}
	S.closeCh(ch)
}

// Len / Cap are len(ch) / cap(ch).
func Len[T any](ch chan T) int {
	if S == nil {
		return len(ch)
	}
	vc := S.ch(ch)
	if vc == nil {
		return 0
	}
	return len(vc.buf)
}

func Cap[T any](ch chan T) int { return cap(ch) }

// CaseRecv / CaseSend build select cases; CaseSend is curried like SendTo.
func CaseRecv[T any](ch <-chan T) Case { return Case{ch: ch} }

func CaseSend[T any](ch chan<- T) func(T) Case {
	return func(v T) Case { return Case{ch: ch, send: true, val: v} }
}

// Select is the rewritten select statement: returns the chosen case index (-1 = default), the
// received value and ok flag.
func Select(hasDefault bool, cases ...Case) (int, any, bool) {
	if S == nil {
		return realSelect(hasDefault, cases)
	}
	return S.selectOp(hasDefault, cases)
}

// RecvVal converts the value returned by Select to the element type of ch.
func RecvVal[T any](ch <-chan T, v any) T { return conv[T](v) }

// realSelect runs the select on the real channels (free-running twin).
func realSelect(hasDefault bool, cases []Case) (int, any, bool) {
	rc := make([]reflect.SelectCase, 0, len(cases)+1)
	for _, c := range cases {
		if c.send {
			rc = append(rc, reflect.SelectCase{Dir: reflect.SelectSend, Chan: reflect.ValueOf(c.ch), Send: reflect.ValueOf(c.val)})
		} else {
			rc = append(rc, reflect.SelectCase{Dir: reflect.SelectRecv, Chan: reflect.ValueOf(c.ch)})
		}
	}
	if hasDefault {
		rc = append(rc, reflect.SelectCase{Dir: reflect.SelectDefault})
	}
	i, v, ok := reflect.Select(rc)
	if hasDefault && i == len(cases) {
		return -1, nil, false
	}
	if cases[i].send || !v.IsValid() {
		return i, nil, ok
	}
	return i, v.Interface(), ok
}

// SortedKeys returns the keys of m in a deterministic order (removes Go's randomised map
// iteration order from executions).
func SortedKeys[K comparable, V any](m map[K]V) []K {
	ks := make([]K, 0, len(m))
	for k := range m {
		ks = append(ks, k)
	}
	sort.Slice(ks, func(i, j int) bool { return fmt.Sprint(ks[i]) < fmt.Sprint(ks[j]) })
	return ks
}
