#!/bin/sh
# Offline warm-up: compile the repository (and, later, the race runtime) with the harness
# toolchain so that the first check does not pay for an empty GOCACHE.
set -e
export GOFLAGS=-mod=mod GOPROXY=off GOTOOLCHAIN=local GOSUMDB=off
cd /repo
go1.26.8 build ./... 
go1.26.8 build -tags "purego appengine" ./cyclist/ ./kravatte/ ./transport/
cd /verif
chmod +x check
exit 0
