//go:build verif

package hopserver

import (
	"net"

	"hop.computer/hop/transport"
)

// VerifListen, when set, replaces the UDP socket NewHopServer opens (check-time source seam
// "hopserver-listen"): the real NewHopServer then wires its real certificate callbacks and
// client-verification policy onto a simulated socket.
var VerifListen func(addr string) (transport.UDPLike, error)

type verifPacketConn interface {
	transport.UDPLike
}

func verifListenPacket(addr string) (verifPacketConn, error) {
	if VerifListen != nil {
		return VerifListen(addr)
	}
	pc, err := net.ListenPacket("udp", addr)
	if err != nil {
		return nil, err
	}
	return pc.(*net.UDPConn), nil
}
