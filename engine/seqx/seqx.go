// Package seqx is E1: bounded-exhaustive exploration of sequential code.
//
// BFS: explicit-state breadth-first search in which a state is the operation history that
// reaches it. A successor is computed by building a fresh real object, replaying the shortest
// known path and applying one more operation (live objects are never cloned). States are
// deduplicated on a canonical key supplied by the system, which must include the reference
// model's state so that merged states have equal futures.
package seqx

import (
	"sync"
)

// Step is the result of executing a path on a fresh instance.
type Step struct {
	Key  string // canonical state key after the last op ("" = do not expand / dedupe on path)
	Bad  string // non-empty = oracle violated at the last op (or any earlier one)
	Stop bool   // do not expand this state further
}

// BFS explores all op sequences up to MaxDepth, deduplicating on Step.Key.
type BFS[Op any] struct {
	Alphabet func(path []Op) []Op
	Exec     func(path []Op) Step
	MaxDepth int
	Workers  int
	OnBad    func(path []Op, bad string)
	Expired  func() bool
}

type Stats struct {
	States      int64
	Transitions int64
	MaxDepth    int
	Capped      bool
}

func (b *BFS[Op]) Run() Stats {
	var st Stats
	seen := map[string]struct{}{}
	var mu sync.Mutex
	frontier := [][]Op{{}}
	root := b.Exec(nil)
	seen[root.Key] = struct{}{}
	st.States = 1
	for depth := 0; depth < b.MaxDepth && len(frontier) > 0; depth++ {
		if b.Expired != nil && b.Expired() {
			st.Capped = true
			break
		}
		var next [][]Op
		type job struct {
			path []Op
		}
		jobs := make(chan []Op, 256)
		var wg sync.WaitGroup
		w := b.Workers
		if w <= 0 {
			w = 1
		}
		for i := 0; i < w; i++ {
			wg.Add(1)
			go func() {
				defer wg.Done()
				for p := range jobs {
					for _, op := range b.Alphabet(p) {
						np := make([]Op, len(p)+1)
						copy(np, p)
						np[len(p)] = op
						s := b.Exec(np)
						mu.Lock()
						st.Transitions++
						if s.Bad != "" {
							mu.Unlock()
							if b.OnBad != nil {
								b.OnBad(np, s.Bad)
							}
							continue
						}
						if _, ok := seen[s.Key]; !ok {
							seen[s.Key] = struct{}{}
							st.States++
							if !s.Stop {
								next = append(next, np)
							}
						}
						mu.Unlock()
					}
				}
			}()
		}
		for _, p := range frontier {
			if b.Expired != nil && b.Expired() {
				st.Capped = true
				break
			}
			jobs <- p
		}
		close(jobs)
		wg.Wait()
		if len(next) > 0 {
			st.MaxDepth = depth + 1
		}
		frontier = next
	}
	return st
}

// Product enumerates the cartesian product of dims (each dims[i] = number of values of
// dimension i) restricted to tuples with at most maxOff coordinates different from 0
// (coordinate 0 is the baseline value of every dimension). maxOff < 0 means the full product.
func Product(dims []int, maxOff int, fn func(idx []int)) int64 {
	idx := make([]int, len(dims))
	var n int64
	var rec func(i, off int)
	rec = func(i, off int) {
		if i == len(dims) {
			n++
			fn(idx)
			return
		}
		idx[i] = 0
		rec(i+1, off)
		if maxOff < 0 || off < maxOff {
			for v := 1; v < dims[i]; v++ {
				idx[i] = v
				rec(i+1, off+1)
			}
		}
		idx[i] = 0
	}
	rec(0, 0)
	return n
}

// ProductList materialises Product as a list of index tuples (for parallel processing).
func ProductList(dims []int, maxOff int) [][]int {
	var out [][]int
	Product(dims, maxOff, func(idx []int) {
		c := make([]int, len(idx))
		copy(c, idx)
		out = append(out, c)
	})
	return out
}
