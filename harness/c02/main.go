// C02 — any in-flight change to a handshake aborts it; success means equal fresh keys.
// Honest client and server over simnet; the explorer alters exactly one handshake datagram per
// execution (every byte offset x masks, every truncation, replacement by the same-type datagram
// of another handshake) and judges the receiver of the altered datagram.
package main

import (
	"bytes"
	"fmt"
	"sync"

	"hop.computer/hop/transport"
	"hop.computer/hop/zzverif/fix"
	"hop.computer/hop/zzverif/simnet"
	"hop.computer/hop/zzverif/vk"
)

var typeName = map[byte]string{1: "ClientHello", 2: "ServerHello", 3: "ClientAck", 4: "ServerAuth", 5: "ClientAuth", 8: "ClientRequestHidden", 9: "ServerResponseHidden"}

func toServer(t byte) bool { return t == 1 || t == 3 || t == 5 || t == 8 }

type mutation struct {
	Hidden bool   `json:"hidden"`
	Type   byte   `json:"msg_type"`
	Kind   string `json:"kind"` // flip | trunc | extend | dup | none
	Off    int    `json:"off,omitempty"`
	Mask   byte   `json:"mask,omitempty"`
	Len    int    `json:"len,omitempty"`
}

func (m mutation) String() string {
	mode := "disc"
	if m.Hidden {
		mode = "hidden"
	}
	switch m.Kind {
	case "flip":
		return fmt.Sprintf("%s:%s:flip@%d^%02x", mode, typeName[m.Type], m.Off, m.Mask)
	case "trunc", "trunc-primed":
		return fmt.Sprintf("%s:%s:%s=%d", mode, typeName[m.Type], m.Kind, m.Len)
	case "extend":
		return fmt.Sprintf("%s:%s:extend+%d", mode, typeName[m.Type], m.Len)
	}
	return fmt.Sprintf("%s:%s:%s", mode, typeName[m.Type], m.Kind)
}

// region names the field a byte offset of a message belongs to (for violation identity).
func region(t byte, off, total int) string {
	type f struct {
		name string
		n    int
	}
	var fs []f
	K, CT, CK := transport.KemKeyLen, transport.KemCtLen, transport.PQCookieLen
	switch t {
	case 1:
		fs = []f{{"header", 4}, {"kem-key", K}, {"mac", 16}}
	case 2:
		fs = []f{{"header", 4}, {"kem-ct", CT}, {"cookie", CK}, {"mac", 16}}
	case 3:
		fs = []f{{"header", 4}, {"dh-ephemeral", 32}, {"kem-key", K}, {"cookie", CK}, {"sni", 256}, {"mac", 16}}
	case 4:
		fs = []f{{"header", 4}, {"session-id", 4}, {"dh-ephemeral", 32}, {"certs", total - 4 - 4 - 32 - 32}, {"cert-tag", 16}, {"final-mac", 16}}
	case 5:
		fs = []f{{"header", 4}, {"session-id", 4}, {"certs", total - 4 - 4 - 32}, {"cert-tag", 16}, {"final-mac", 16}}
	case 8:
		fs = []f{{"header", 4}, {"kem-key", K}, {"kem-ct", CT}, {"certs", total - 4 - K - CT - 16 - 8 - 16}, {"cert-tag", 16}, {"timestamp", 8}, {"final-mac", 16}}
	case 9:
		fs = []f{{"header", 4}, {"session-id", 4}, {"kem-ct", CT}, {"certs", total - 4 - 4 - CT - 32}, {"cert-tag", 16}, {"final-mac", 16}}
	}
	pos := 0
	for _, x := range fs {
		if off < pos+x.n {
			return x.name
		}
		pos += x.n
	}
	return "beyond"
}

func boundaries(t byte, total int) []int {
	var out []int
	last := ""
	for o := 0; o < total; o++ {
		r := region(t, o, total)
		if r != last {
			out = append(out, o)
			if o > 0 {
				out = append(out, o-1)
			}
			last = r
		}
	}
	return append(out, total-1)
}

type outcome struct {
	clientDone, clientOK bool
	clientErr            string
	serverEstablished    int
	offered              int
	keysEqual            bool
	keyProblem           string
	probeOK              bool
	seen                 map[byte]int // message type -> length, as observed
}

var (
	keyMu   sync.Mutex
	allKeys = map[[16]byte]string{}
)

func recordKeys(r *vk.Run, what string, ks ...[16]byte) {
	keyMu.Lock()
	defer keyMu.Unlock()
	for _, k := range ks {
		if prev, dup := allKeys[k]; dup {
			r.Violation("keys:reused", fmt.Sprintf("a session key of %s equals a key of %s", what, prev), nil)
		}
		allKeys[k] = what
	}
}

var sessionCounter int
var scMu sync.Mutex

// run executes one handshake with mutation m applied to the first datagram of type m.Type.
func run(r *vk.Run, std *fix.Std, m mutation) (outcome, error) {
	var o outcome
	o.seen = map[byte]int{}
	w := fix.NewWorld()
	defer w.Close()
	srv, err := w.StartServer(std.ServerConfig(false), std.ServerAdr)
	if err != nil {
		return o, err
	}
	cl := w.NewClient(std.ClientConfig(m.Hidden), simnet.Addr("10.0.0.2", 4000), std.ServerAdr)
	cl.Start()
	applied := false
	err = w.Pump(func(ord int, d *simnet.Datagram) []*simnet.Datagram {
		t := d.Data[0]
		if _, ok := o.seen[t]; !ok {
			o.seen[t] = len(d.Data)
		}
		if applied || t != m.Type || m.Kind == "none" {
			return nil
		}
		applied = true
		c := d.Clone()
		switch m.Kind {
		case "flip":
			if m.Off >= len(c.Data) {
				return nil
			}
			c.Data[m.Off] ^= m.Mask
		case "trunc":
			if m.Len > len(c.Data) {
				return nil
			}
			c.Data = c.Data[:m.Len]
		case "trunc-primed":
			// first a junk datagram (invalid type byte) that carries the original bytes, so that
			// the receiver's reused receive buffer holds exactly the missing tail; then the
			// truncated datagram. A receiver that reads past the datagram's end accepts it.
			if m.Len > len(c.Data) {
				return nil
			}
			junk := d.Clone()
			junk.Data[0] = 0xEE
			c.Data = c.Data[:m.Len]
			return []*simnet.Datagram{junk, c}
		case "extend":
			c.Data = append(c.Data, make([]byte, m.Len)...)
		case "dup":
			return []*simnet.Datagram{d, d.Clone()}
		}
		return []*simnet.Datagram{c}
	})
	if err != nil {
		return o, err
	}
	o.clientDone, _ = cl.Result()
	_, cerr := cl.Result()
	o.clientOK = cl.Completed()
	if cerr != nil {
		o.clientErr = cerr.Error()
	}
	if p := cl.Panicked(); p != nil {
		o.clientErr = fmt.Sprint("PANIC: ", p)
	}
	var sv []transport.VerifSession
	for _, s := range srv.S.VerifSessions() {
		if s.Established {
			o.serverEstablished++
			sv = append(sv, s)
		}
	}
	_, _, o.offered = srv.S.VerifCounts()
	if o.clientOK && o.serverEstablished >= 1 {
		cs, ok := cl.C.VerifSession()
		if !ok {
			o.keyProblem = "client reports no session after successful handshake"
		} else {
			// the server session this client believes it shares (several exist after a duplicated
			// hidden request)
			s := sv[0]
			for _, x := range sv {
				if x.ID == cs.ID {
					s = x
				}
			}
			switch {
			case cs.ID != s.ID:
				o.keyProblem = "session identifiers differ"
			case cs.C2S != s.C2S || cs.S2C != s.S2C:
				o.keyProblem = "directional keys differ between client and server"
			case cs.C2S == cs.S2C:
				o.keyProblem = "both directions use the same key"
			case cs.C2S == [16]byte{} || cs.S2C == [16]byte{}:
				o.keyProblem = "all-zero session key"
			default:
				o.keysEqual = true
				scMu.Lock()
				sessionCounter++
				n := sessionCounter
				scMu.Unlock()
				recordKeys(r, fmt.Sprintf("session #%d (%s)", n, m), cs.C2S, cs.S2C)
			}
		}
		// probe both directions
		var h *transport.Handle
		for cand := srv.Accept(); cand != nil; cand = srv.Accept() {
			if cs, ok := cl.C.VerifSession(); ok && cand.VerifSession().ID == cs.ID {
				h = cand
				break
			}
		}
		if h != nil {
			msg := []byte("probe-from-client")
			if err := cl.C.WriteMsg(msg); err == nil {
				if err := w.Pump(nil); err != nil {
					return o, err
				}
				buf := make([]byte, 100)
				if h.VerifRecvLen() > 0 {
					if n, err := h.ReadMsg(buf); err == nil && bytes.Equal(buf[:n], msg) {
						msg2 := []byte("probe-from-server")
						if err := h.WriteMsg(msg2); err == nil {
							if err := w.Pump(nil); err != nil {
								return o, err
							}
							if ch := cl.C.VerifHandle(); ch != nil && ch.VerifRecvLen() > 0 {
								if n, err := cl.C.ReadMsg(buf); err == nil && bytes.Equal(buf[:n], msg2) {
									o.probeOK = true
								}
							}
						}
					}
				}
			}
		}
	}
	return o, nil
}

func judge(r *vk.Run, m mutation, o outcome, total int) {
	id := fmt.Sprintf("%s:%s:%s", map[bool]string{false: "disc", true: "hidden"}[m.Hidden], typeName[m.Type], m.Kind)
	switch m.Kind {
	case "flip":
		id += ":" + region(m.Type, m.Off, total)
	}
	altered := m.Kind == "flip" || m.Kind == "trunc" || m.Kind == "trunc-primed"
	if altered {
		if toServer(m.Type) {
			if o.serverEstablished > 0 || o.offered > 0 {
				r.Violation(id, fmt.Sprintf("%v: the server (receiver of the altered datagram) completed the handshake (established=%d offered=%d)", m, o.serverEstablished, o.offered), m)
			}
		} else if o.clientOK {
			r.Violation(id, fmt.Sprintf("%v: the client (receiver of the altered datagram) reported a successful handshake", m), m)
		}
	}
	if o.clientErr != "" && len(o.clientErr) > 6 && o.clientErr[:6] == "PANIC:" {
		r.Violation(id+":panic", fmt.Sprintf("%v: client panicked: %s", m, o.clientErr), m)
	}
	if o.clientOK && o.serverEstablished >= 1 {
		if o.keyProblem != "" {
			r.Violation(id+":keys", fmt.Sprintf("%v: both completed but %s", m, o.keyProblem), m)
		} else if !o.probeOK {
			r.Violation(id+":probe", fmt.Sprintf("%v: both completed with equal keys but a probe message did not round-trip", m), m)
		}
	}
	if m.Kind == "none" {
		// faithful schedule: must complete (non-vacuity of everything else). Duplicates are
		// recorded but not judged for liveness: C02 does not promise that a duplicated
		// handshake datagram is tolerated, only that completion implies equal fresh keys.
		if !(o.clientOK && o.serverEstablished >= 1 && o.keysEqual && o.probeOK) {
			r.Violation(id+":liveness", fmt.Sprintf("%v: honest handshake on a benign schedule did not complete with working equal keys (client ok=%v err=%q, server established=%d, %s)", m, o.clientOK, o.clientErr, o.serverEstablished, o.keyProblem), m)
		}
	}
	r.Distinct(fmt.Sprintf("%s|c=%v|s=%d", id, o.clientOK, o.serverEstablished))
}

func main() {
	r := vk.New("C02", "fault_enumeration")
	std := fix.NewStd()
	if r.ReplayFile != "" {
		var m mutation
		if err := r.LoadReplay(&m); err != nil {
			r.EngineError("replay: %v", err)
			r.Finish()
		}
		base, _ := run(r, std, mutation{Hidden: m.Hidden, Kind: "none"})
		o, err := run(r, std, m)
		if err != nil {
			r.EngineError("%v", err)
		} else {
			fmt.Printf("outcome: %+v\n", o)
			judge(r, m, o, base.seen[m.Type])
		}
		r.Finish()
	}
	r.SetRule("one execution = one real handshake over the simulated wire with exactly one alteration of one handshake datagram (types: 5 discoverable + 2 hidden): XOR masks {01,80,ff} at byte offsets (quick: every field boundary +-1 and every 16th offset; thorough: every offset), truncation to every length (quick: field boundaries, every 16th and the last 40 lengths), for client-to-server messages also truncation after priming the server's reused receive buffer with a junk datagram carrying the original bytes, trailing extension (recorded, not judged), duplicate delivery (benign, must still complete), and replacement by the same-type datagram of a concurrently running / an earlier completed handshake. Oracle: receiver of the altered datagram does not complete; when both complete: equal session id and directional keys, directions differ, all session keys of the run pairwise distinct, probe round-trips. distinct_nontrivial = distinct (mode,message,kind,field,client outcome,server outcome) classes observed.")
	var muts []mutation
	lens := map[bool]map[byte]int{}
	for _, hidden := range []bool{false, true} {
		base, err := run(r, std, mutation{Hidden: hidden, Kind: "none"})
		r.Eval()
		if err != nil {
			r.EngineError("baseline: %v", err)
			r.Finish()
		}
		judge(r, mutation{Hidden: hidden, Kind: "none", Type: 0}, base, 0)
		lens[hidden] = base.seen
		types := []byte{1, 2, 3, 4, 5}
		if hidden {
			types = []byte{8, 9}
		}
		for _, t := range types {
			total := base.seen[t]
			if total == 0 {
				r.EngineError("baseline handshake (hidden=%v) never produced a %s", hidden, typeName[t])
				continue
			}
			offs := map[int]bool{}
			if r.Thorough() {
				for o := 0; o < total; o++ {
					offs[o] = true
				}
			} else {
				for _, b := range boundaries(t, total) {
					offs[b] = true
				}
				for o := 0; o < total; o += 16 {
					offs[o] = true
				}
			}
			for o := range offs {
				for _, mask := range []byte{0x01, 0x80, 0xff} {
					muts = append(muts, mutation{Hidden: hidden, Type: t, Kind: "flip", Off: o, Mask: mask})
				}
			}
			for l := 0; l < total; l++ {
				if r.Thorough() || offs[l] || total-l <= 40 {
					muts = append(muts, mutation{Hidden: hidden, Type: t, Kind: "trunc", Len: l})
					if toServer(t) && (r.Thorough() || total-l <= 40) {
						muts = append(muts, mutation{Hidden: hidden, Type: t, Kind: "trunc-primed", Len: l})
					}
				}
			}
			for _, e := range []int{1, 16} {
				muts = append(muts, mutation{Hidden: hidden, Type: t, Kind: "extend", Len: e})
			}
			muts = append(muts, mutation{Hidden: hidden, Type: t, Kind: "dup"})
		}
	}
	r.Set("message_lengths_discoverable", fmt.Sprint(lens[false]))
	r.Set("message_lengths_hidden", fmt.Sprint(lens[true]))
	extendAccepted := 0
	var emu sync.Mutex
	r.Parallel(len(muts), func(i int) {
		if r.Expired() {
			return
		}
		m := muts[i]
		o, err := run(r, std, m)
		r.Eval()
		if err != nil {
			r.EngineError("%v: %v", m, err)
			return
		}
		if m.Kind == "extend" && o.clientOK && o.serverEstablished > 0 {
			emu.Lock()
			extendAccepted++
			emu.Unlock()
		}
		judge(r, m, o, lens[m.Hidden][m.Type])
		if i%997 == 0 {
			r.Sample(map[string]any{"mutation": m.String(), "client_completed": o.clientOK, "server_established": o.serverEstablished, "client_error": o.clientErr})
		}
	})
	if r.Expired() {
		r.Cap("wall-clock budget")
	}
	r.Set("single_alteration_cases", len(muts))
	r.Set("extended_datagrams_still_completing", extendAccepted)

	swaps(r, std)
	r.Assume("MAC/tag collisions are impossible; the adversary alters exactly one datagram per execution (deviation bound 1) or swaps one datagram between two handshakes")
	r.Finish()
}

// swaps: replace A's datagram of type T by the same-type datagram of handshake B (concurrent,
// or completed earlier), delivered with A's addressing.
func swaps(r *vk.Run, std *fix.Std) {
	type sc struct {
		hidden  bool
		t       byte
		earlier bool // B completed before A started (replay) vs B suspended mid-handshake
	}
	var cases []sc
	for _, t := range []byte{1, 2, 3, 4, 5} {
		cases = append(cases, sc{false, t, false}, sc{false, t, true})
	}
	for _, t := range []byte{8, 9} {
		cases = append(cases, sc{true, t, false}, sc{true, t, true})
	}
	r.Parallel(len(cases), func(i int) {
		c := cases[i]
		r.Eval()
		id := fmt.Sprintf("swap:%s:%s:earlier=%v", map[bool]string{false: "disc", true: "hidden"}[c.hidden], typeName[c.t], c.earlier)
		w := fix.NewWorld()
		defer w.Close()
		srv, err := w.StartServer(std.ServerConfig(false), std.ServerAdr)
		if err != nil {
			r.EngineError("%v", err)
			return
		}
		addrA, addrB := simnet.Addr("10.0.0.2", 4000), simnet.Addr("10.0.0.3", 4001)
		B := w.NewClient(std.ClientConfig(c.hidden), addrB, std.ServerAdr)
		B.Start()
		var captured []byte
		isT := func(d *simnet.Datagram) bool { return d.Data[0] == c.t }
		if c.earlier {
			if err := w.Pump(func(ord int, d *simnet.Datagram) []*simnet.Datagram {
				if isT(d) && captured == nil {
					captured = append([]byte{}, d.Data...)
				}
				return nil
			}); err != nil {
				r.EngineError("%s: %v", id, err)
				return
			}
		} else {
			stopped, err := w.PumpUntil(nil, isT)
			if err != nil || !stopped {
				r.EngineError("%s: could not suspend B at %s (%v)", id, typeName[c.t], err)
				return
			}
			d := w.Net.Pop()
			captured = append([]byte{}, d.Data...)
			w.Net.PushFront(d)
		}
		if captured == nil {
			r.EngineError("%s: no datagram captured", id)
			return
		}
		// Now run A; B's pending datagram (if any) stays in flight behind A's traffic: hold it.
		var held []*simnet.Datagram
		A := w.NewClient(std.ClientConfig(c.hidden), addrA, std.ServerAdr)
		A.Start()
		replaced := false
		involvesB := func(d *simnet.Datagram) bool { return d.Src.Port == addrB.Port || d.Dst.Port == addrB.Port }
		if err := w.Pump(func(ord int, d *simnet.Datagram) []*simnet.Datagram {
			if involvesB(d) {
				held = append(held, d)
				return []*simnet.Datagram{}
			}
			if isT(d) && !replaced {
				replaced = true
				x := d.Clone()
				x.Data = append([]byte{}, captured...)
				return []*simnet.Datagram{x}
			}
			return nil
		}); err != nil {
			r.EngineError("%s: %v", id, err)
			return
		}
		if !replaced {
			r.EngineError("%s: A never produced the message to replace", id)
			return
		}
		estA := 0
		for _, s := range srv.S.VerifSessions() {
			if s.Established && s.RemoteAddr == addrA.String() {
				estA++
			}
		}
		if c.t == 8 {
			// Hidden mode is one round trip: the request carries no binding to its source address,
			// so B's request arriving with A's addressing is a replay of handshake B, which the
			// server may answer (C01/C19 allow a handle to be offered for a replayed request).
			// Handshake A itself is completed by nobody: A must fail, and no server session may
			// share keys with A (A has none). The replayed session is counted, not judged.
			if A.Completed() {
				r.Violation(id, "client A completed although its hidden request was replaced by B's", c.t)
			}
			if estA > 0 {
				r.AddInt("hidden_replayed_request_sessions", int64(estA))
			}
		} else if toServer(c.t) {
			if estA > 0 {
				r.Violation(id, fmt.Sprintf("server completed handshake A although A's %s was replaced by B's", typeName[c.t]), c.t)
			}
		} else if A.Completed() {
			r.Violation(id, fmt.Sprintf("client A completed although its %s was replaced by the one of handshake B", typeName[c.t]), c.t)
		}
		// B resumes and must still complete (non-interference), with keys distinct from everything else
		for _, d := range held {
			w.Net.DeliverD(d)
			if err := w.Net.WaitQuiescent(); err != nil {
				r.EngineError("%s: %v", id, err)
				return
			}
		}
		if err := w.Pump(nil); err != nil {
			r.EngineError("%s: %v", id, err)
			return
		}
		if !B.Completed() {
			_, e := B.Result()
			r.Violation(id+":B", fmt.Sprintf("handshake B did not complete after its %s was copied into handshake A (%v)", typeName[c.t], e), c.t)
		} else if cs, ok := B.C.VerifSession(); ok {
			recordKeys(r, "swap scenario "+id, cs.C2S, cs.S2C)
		}
		r.Distinct(fmt.Sprintf("%s|A=%v|estA=%d|B=%v", id, A.Completed(), estA, B.Completed()))
	})
	r.Set("swap_cases", len(cases))
}
