// Package refkeccak is a from-the-definition Keccak-p[1600, nr] on a 200-byte state.
// Rotation offsets and round constants are computed from their defining recurrences
// (FIPS 202 §3.2), not copied from any table, and the 24-round instance is validated against
// x/crypto/sha3 by Validate before anything trusts it.
package refkeccak

import (
	"bytes"
	"encoding/binary"
	"fmt"

	"golang.org/x/crypto/sha3"
)

var rho [5][5]uint // rho[x][y]
var rc [24]uint64

func init() {
	// ρ offsets: (x,y)=(1,0); for t=0..23: r[x][y]=(t+1)(t+2)/2 mod 64; (x,y)=(y,(2x+3y) mod 5)
	x, y := 1, 0
	for t := 0; t < 24; t++ {
		rho[x][y] = uint((t+1)*(t+2)/2) % 64
		x, y = y, (2*x+3*y)%5
	}
	// ι constants from the LFSR x^8+x^6+x^5+x^4+1
	lfsr := func(t int) uint64 {
		if t%255 == 0 {
			return 1
		}
		r := uint16(1)
		for i := 1; i <= t%255; i++ {
			r <<= 1
			if r&0x100 != 0 {
				r ^= 0x171
			}
		}
		return uint64(r & 1)
	}
	for ir := 0; ir < 24; ir++ {
		var c uint64
		for j := 0; j <= 6; j++ {
			c |= lfsr(j+7*ir) << ((1 << uint(j)) - 1)
		}
		rc[ir] = c
	}
}

func rotl(v uint64, n uint) uint64 {
	if n == 0 {
		return v
	}
	return v<<n | v>>(64-n)
}

// P applies the last nr rounds of Keccak-f[1600] to the byte state.
func P(st *[200]byte, nr int) {
	var a [5][5]uint64 // a[x][y]
	for y := 0; y < 5; y++ {
		for x := 0; x < 5; x++ {
			a[x][y] = binary.LittleEndian.Uint64(st[8*(5*y+x):])
		}
	}
	for ir := 24 - nr; ir < 24; ir++ {
		// θ
		var c, d [5]uint64
		for x := 0; x < 5; x++ {
			c[x] = a[x][0] ^ a[x][1] ^ a[x][2] ^ a[x][3] ^ a[x][4]
		}
		for x := 0; x < 5; x++ {
			d[x] = c[(x+4)%5] ^ rotl(c[(x+1)%5], 1)
		}
		for x := 0; x < 5; x++ {
			for y := 0; y < 5; y++ {
				a[x][y] ^= d[x]
			}
		}
		// ρ and π
		var b [5][5]uint64
		for x := 0; x < 5; x++ {
			for y := 0; y < 5; y++ {
				b[y][(2*x+3*y)%5] = rotl(a[x][y], rho[x][y])
			}
		}
		// χ
		for x := 0; x < 5; x++ {
			for y := 0; y < 5; y++ {
				a[x][y] = b[x][y] ^ (^b[(x+1)%5][y] & b[(x+2)%5][y])
			}
		}
		// ι
		a[0][0] ^= rc[ir]
	}
	for y := 0; y < 5; y++ {
		for x := 0; x < 5; x++ {
			binary.LittleEndian.PutUint64(st[8*(5*y+x):], a[x][y])
		}
	}
}

// PLanes is P on a lane array (lane (x,y) at index 5y+x).
func PLanes(s *[25]uint64, nr int) {
	var b [200]byte
	for i, l := range s {
		binary.LittleEndian.PutUint64(b[8*i:], l)
	}
	P(&b, nr)
	for i := range s {
		s[i] = binary.LittleEndian.Uint64(b[8*i:])
	}
}

// Validate checks the 24-round permutation by computing SHA3-256 and SHAKE128 with it and
// comparing with x/crypto/sha3 on inputs that cross the rate boundary.
func Validate() error {
	for _, n := range []int{0, 1, 135, 136, 137, 200, 271, 272, 1000} {
		msg := make([]byte, n)
		for i := range msg {
			msg[i] = byte(i*31 + n)
		}
		// SHA3-256: rate 136, suffix 0x06
		var st [200]byte
		rate := 136
		m := append(append([]byte{}, msg...), 0x06)
		for len(m)%rate != 0 {
			m = append(m, 0)
		}
		m[len(m)-1] |= 0x80
		for off := 0; off < len(m); off += rate {
			for i := 0; i < rate; i++ {
				st[i] ^= m[off+i]
			}
			P(&st, 24)
		}
		want := sha3.Sum256(msg)
		if !bytes.Equal(st[:32], want[:]) {
			return fmt.Errorf("refkeccak: SHA3-256 mismatch for length %d", n)
		}
		// SHAKE128: rate 168, suffix 0x1f, 300 output bytes (needs extra permutations)
		st = [200]byte{}
		rate = 168
		m = append(append([]byte{}, msg...), 0x1f)
		for len(m)%rate != 0 {
			m = append(m, 0)
		}
		m[len(m)-1] |= 0x80
		for off := 0; off < len(m); off += rate {
			for i := 0; i < rate; i++ {
				st[i] ^= m[off+i]
			}
			P(&st, 24)
		}
		var out []byte
		for len(out) < 300 {
			out = append(out, st[:rate]...)
			if len(out) < 300 {
				P(&st, 24)
			}
		}
		w := make([]byte, 300)
		sha3.ShakeSum128(w, msg)
		if !bytes.Equal(out[:300], w) {
			return fmt.Errorf("refkeccak: SHAKE128 mismatch for length %d", n)
		}
	}
	return nil
}
