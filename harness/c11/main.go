// C11 — no peer-supplied frame or protocol message can crash or wedge the process.
// Part A (decoders, E1): structured byte strings (valid encodings with every length field and
// enum varied, every truncation) into each application-protocol decoder: returns without
// panic, allocation proportional to the input. Part B (frames, E3 at 0 deviations = a
// deterministic run under the controlled scheduler with a virtual clock): crafted frames are
// injected into a real muxer in each tube state; no thread may panic, an untouched tube must
// still echo a probe and Stop must return in bounded virtual time without leaked threads.
package main

import (
	"bytes"
	"encoding/binary"
	"flag"
	"fmt"
	"io"
	"net"
	"runtime"
	"strings"
	"time"

	"github.com/sirupsen/logrus"

	"hop.computer/hop/authgrants"
	"hop.computer/hop/certs"
	"hop.computer/hop/codex"
	"hop.computer/hop/common"
	"hop.computer/hop/keys"
	"hop.computer/hop/portforwarding"
	"hop.computer/hop/tubes"
	"hop.computer/hop/zzverif/tuberig"
	"hop.computer/hop/zzverif/vk"
	"hop.computer/hop/zzverif/vrt"
	"hop.computer/hop/zzverif/vsync"
)

// ---------------- part A: decoders ----------------

type decoder struct {
	name  string
	valid [][]byte
	// lenFields: offsets and widths of length fields in valid[0]
	fields []field
	enums  []int // offsets of enum bytes in valid[0]
	run    func(b []byte)
}

type field struct{ off, width int }

type rwConn struct {
	io.Reader
	net.Conn
}

func (c rwConn) Read(b []byte) (int, error) { return c.Reader.Read(b) }

func put(b []byte, f field, v uint64) []byte {
	x := append([]byte{}, b...)
	switch f.width {
	case 1:
		x[f.off] = byte(v)
	case 2:
		binary.BigEndian.PutUint16(x[f.off:], uint16(v))
	case 4:
		binary.BigEndian.PutUint32(x[f.off:], uint32(v))
	}
	return x
}

func get(b []byte, f field) uint64 {
	switch f.width {
	case 1:
		return uint64(b[f.off])
	case 2:
		return uint64(binary.BigEndian.Uint16(b[f.off:]))
	}
	return uint64(binary.BigEndian.Uint32(b[f.off:]))
}

func decoders() []decoder {
	k := keys.GenerateNewX25519KeyPair()
	dc, _ := certs.SelfSignLeaf(&certs.Identity{PublicKey: k.Public, Names: []certs.Name{certs.RawStringName("delegate")}})
	certBytes, _ := dc.Marshal()
	var dcp certs.Certificate
	dcp.ReadFrom(bytes.NewReader(certBytes))
	intent := authgrants.Intent{GrantType: authgrants.Command, TargetPort: 77, StartTime: time.Unix(1000, 0), ExpTime: time.Unix(2000, 0),
		TargetSNI: certs.DNSName("target.example"), TargetUsername: "user", DelegateCert: dcp,
		AssociatedData: authgrants.GrantData{CommandGrantData: authgrants.CommandGrantData{Cmd: "ls -l"}}}
	var ib bytes.Buffer
	authgrants.WriteIntentRequest(&ib, intent)
	im := ib.Bytes()
	// offsets inside the intent message: [type][grant][rsv][port2][start8][exp8][sni: bs,type,len,label...][userlen][user][cert...][cmdlen][cmd]
	sniOff := 1 + 2 + 2 + 8 + 8
	sniLen := int(im[sniOff+2])
	userOff := sniOff + 3 + sniLen
	certOff := userOff + 1 + int(im[userOff])
	chunkOff := certOff + 4 + 8 + 8 + 32 + 32
	cmdOff := certOff + len(certBytes)
	var den bytes.Buffer
	authgrants.WriteIntentDenied(&den, "no way")
	exec := codex.VerifExecInit(true, "echo hi", "xterm", nil)
	pf := portforwarding.VerifToBytes(&net.TCPAddr{IP: net.ParseIP("127.0.0.1"), Port: 8080}, portforwarding.PfLocal)
	var str bytes.Buffer
	common.WriteString("hello", &str)
	var ti bytes.Buffer
	authgrants.WriteTargetInfo(intent.TargetURL(), &ti)
	var fail bytes.Buffer
	authgrants.WriteFailure(&fail, "cannot connect")
	var nameB bytes.Buffer
	n := certs.DNSName("example.org")
	n.WriteTo(&nameB)
	return []decoder{
		{"authgrants.AgMessage(intent)", [][]byte{im}, []field{{sniOff, 1}, {sniOff + 2, 1}, {userOff, 1}, {chunkOff, 2}, {chunkOff + 2, 1}, {chunkOff + 4, 1}, {cmdOff, 1}}, []int{0, 1, 2, sniOff + 1, certOff, certOff + 1},
			func(b []byte) { var m authgrants.AgMessage; m.ReadFrom(bytes.NewReader(b)) }},
		{"authgrants.ReadIntentCommunication", [][]byte{append([]byte{2}, im[1:]...)}, []field{{userOff, 1}, {cmdOff, 1}}, []int{0, 1},
			func(b []byte) { authgrants.ReadIntentCommunication(bytes.NewReader(b)) }},
		{"authgrants.ReadConfOrDenial", [][]byte{den.Bytes(), {3}}, []field{{1, 1}}, []int{0},
			func(b []byte) { authgrants.ReadConfOrDenial(bytes.NewReader(b)) }},
		{"authgrants.ReadTargetInfo", [][]byte{ti.Bytes()}, []field{{0, 1}}, nil, func(b []byte) { authgrants.ReadTargetInfo(bytes.NewReader(b)) }},
		{"authgrants.ReadResponse", [][]byte{fail.Bytes(), {1}}, []field{{1, 1}}, []int{0}, func(b []byte) { authgrants.ReadResponse(bytes.NewReader(b)) }},
		{"common.ReadString", [][]byte{str.Bytes()}, []field{{0, 1}}, nil, func(b []byte) { common.ReadString(bytes.NewReader(b)) }},
		{"codex.GetCmd", [][]byte{exec, codex.VerifExecInit(false, "", "", nil)}, []field{{1, 4}, {5 + 7, 4}}, []int{0},
			func(b []byte) { codex.GetCmd(rwConn{Reader: bytes.NewReader(b)}) }},
		{"portforwarding.readPacket", [][]byte{pf, portforwarding.VerifToBytes(&net.UnixAddr{Name: "/tmp/s", Net: "unix"}, portforwarding.PfRemote)}, []field{{2, 2}}, []int{0, 1},
			func(b []byte) { portforwarding.VerifReadPacket(bytes.NewReader(b)) }},
		{"certs.Certificate.ReadFrom", [][]byte{certBytes}, []field{{84, 2}, {86, 1}, {88, 1}}, []int{0, 1, 87},
			func(b []byte) { var c certs.Certificate; c.ReadFrom(bytes.NewReader(b)) }},
		{"certs.Name.ReadFrom", [][]byte{nameB.Bytes()}, []field{{0, 1}, {2, 1}}, []int{1}, func(b []byte) { var n certs.Name; n.ReadFrom(bytes.NewReader(b)) }},
		{"certs.ReadCertificatePEM", [][]byte{mustPEM(dc)}, nil, nil, func(b []byte) { certs.ReadCertificatePEM(b) }},
	}
}

func mustPEM(c *certs.Certificate) []byte {
	b, err := certs.EncodeCertificateToPEM(c)
	if err != nil {
		panic(err)
	}
	return b
}

type decCase struct {
	Dec   int    `json:"decoder"`
	Desc  string `json:"desc"`
	Input []byte `json:"input"`
}

func decoderCases(ds []decoder) []decCase {
	var out []decCase
	lens := []uint64{0, 1, 255, 256, 65535, 65536, 1<<31 - 1, 1 << 31, 1<<32 - 1}
	for di, d := range ds {
		for vi, v := range d.valid {
			for cut := 0; cut <= len(v); cut++ {
				out = append(out, decCase{di, fmt.Sprintf("valid%d cut=%d", vi, cut), v[:cut]})
			}
		}
		for bi, base := range d.valid {
			if bi > 0 && len(base) > 64 {
				continue
			}
			for fi, f := range d.fields {
				if f.off+f.width > len(base) {
					continue
				}
				tv := get(base, f)
				vals := append([]uint64{}, lens...)
				vals = append(vals, tv-1, tv+1, tv+2)
				seen := map[uint64]bool{}
				for _, val := range vals {
					if f.width < 8 && val >= 1<<(8*uint(f.width)) {
						continue
					}
					if seen[val] {
						continue
					}
					seen[val] = true
					x := put(base, f, val)
					out = append(out, decCase{di, fmt.Sprintf("valid%d field%d=%d", bi, fi, val), x})
					if len(base) <= 64 {
						for _, e := range d.enums {
							if e >= len(base) || (e >= f.off && e < f.off+f.width) {
								continue
							}
							for v := 0; v < 256; v++ {
								y := append([]byte{}, x...)
								y[e] = byte(v)
								out = append(out, decCase{di, fmt.Sprintf("valid%d field%d=%d byte%d=%d", bi, fi, val, e, v), y})
							}
						}
					}
					// the altered message truncated right after the field and padded with a long tail
					out = append(out, decCase{di, fmt.Sprintf("valid%d field%d=%d cut-after-field", bi, fi, val), x[:f.off+f.width]})
					out = append(out, decCase{di, fmt.Sprintf("valid%d field%d=%d +300 bytes", bi, fi, val), append(append([]byte{}, x...), bytes.Repeat([]byte{0x41}, 300)...)})
				}
			}
			for _, e := range d.enums {
				if e >= len(base) {
					continue
				}
				for v := 0; v < 256; v++ {
					x := append([]byte{}, base...)
					x[e] = byte(v)
					out = append(out, decCase{di, fmt.Sprintf("valid%d byte%d=%d", bi, e, v), x})
				}
			}
		}
	}
	return out
}

// ---------------- part B: frames ----------------

type frameCase struct {
	State int    `json:"state"` // 0 no such tube, 1 initiated idle, 2 data in flight, 3 FIN sent, 4 closed not reaped, 5 unreliable tube, 6 Stop in progress
	Raw   []byte `json:"raw"`
	Desc  string `json:"desc"`
	Two   []byte `json:"second,omitempty"`
}

var stateNames = []string{"no-such-tube", "initiated-idle", "data-in-flight", "fin-sent", "closed-not-reaped", "unreliable", "muxer-stopping"}

func mkFrame(id, flags byte, dl uint16, ack, fno uint32, data []byte) []byte {
	b := []byte{id, flags, 0, 0, 0, 0, 0, 0, 0, 0, 0, 0}
	binary.BigEndian.PutUint16(b[2:], dl)
	binary.BigEndian.PutUint32(b[4:], ack)
	binary.BigEndian.PutUint32(b[8:], fno)
	return append(b, data...)
}

func frameCases(thorough bool) []frameCase {
	var out []frameCase
	ids := []byte{0xFE, 200}                     // 0xFE = "the target tube" (resolved at run time), 200 = unknown tube
	dls := []int{0, -1, -2, 65523, 65524, 65535} // -1 = true length, -2 = true length + 1
	acks := []uint32{0, 1, 2, 3, 1000, 1 << 31, 1<<32 - 1}
	fnos := []uint32{0, 1, 2, 1001, 1002, 1 << 31, 1<<32 - 1}
	for st := 0; st < len(stateNames); st++ {
		add := func(id, fl byte, dli int, ack, fno uint32, dlen int) {
			data := bytes.Repeat([]byte{0x5a}, dlen)
			dl := dli
			switch dli {
			case -1:
				dl = dlen
			case -2:
				dl = dlen + 1
			}
			out = append(out, frameCase{State: st, Raw: mkFrame(id, fl, uint16(dl), ack, fno, data), Desc: fmt.Sprintf("id=%02x flags=%02x datalen-field=%d ack=%d frame=%d payload=%d", id, fl, dl, ack, fno, dlen)})
		}
		if thorough {
			for _, id := range ids {
				for fl := 0; fl < 64; fl++ {
					for _, dl := range dls {
						for _, a := range acks {
							for _, f := range fnos {
								add(id, byte(fl), dl, a, f, 5)
							}
						}
					}
				}
			}
		} else {
			// every dimension against a baseline, and all pairs flags x {datalen, ack, frame}
			for _, id := range ids {
				for fl := 0; fl < 64; fl++ {
					for _, dl := range dls {
						add(id, byte(fl), dl, 1, 1, 5)
					}
					for _, a := range acks {
						add(id, byte(fl), -1, a, 1, 5)
					}
					for _, f := range fnos {
						add(id, byte(fl), -1, 1, f, 5)
					}
				}
				for _, a := range acks {
					for _, f := range fnos {
						for _, fl := range []byte{0x04, 0x0c, 0x14, 0x1c, 0x24, 0x00} {
							add(id, fl, -1, a, f, 0)
						}
					}
				}
			}
		}
		for _, l := range []int{0, 1, 2, 4, 11, 12, 13} {
			out = append(out, frameCase{State: st, Raw: bytes.Repeat([]byte{0x04}, l), Desc: fmt.Sprintf("short datagram of %d bytes", l)})
		}
	}
	return out
}

const probeType = 33

// runFrameCase executes one case under the scheduler; returns problems.
func runFrameCase(c frameCase) []string {
	res := vrt.Run(vrt.Config{MaxSteps: 300000, MaxTime: 10 * time.Minute, Settle: 15 * time.Second}, nil, func() {
		m := tuberig.NewMuxers(0)
		victim := m.Server
		// probe tube (untouched by the junk) with an echo on the victim's side
		pc, ps, err := m.ReliablePair(probeType)
		if err != nil {
			vrt.Fail("cannot open probe tube: %v", err)
			return
		}
		var wg vsync.WaitGroup
		wg.Add(1)
		vrt.Go(func() {
			defer wg.Done()
			buf := make([]byte, 16)
			for {
				n, err := ps.Read(buf)
				if err != nil {
					return
				}
				ps.Write(buf[:n])
			}
		})
		// target tube in the requested state
		var target byte = 201
		dropAcks := false
		m.CConn.SetFilter(func(dir string, n int, msg []byte) [][]byte {
			if dropAcks && len(msg) >= 2 && msg[0] == target {
				return [][]byte{} // the peer's frames for the target tube are lost: victim's data stays in flight
			}
			return nil
		})
		if c.State != 0 {
			var vt tubes.Tube
			if c.State == 5 {
				// tubes are identified by (number, reliability): burn number 1 so that the target
				// does not share its number with the reliable probe tube
				if d, err := m.Client.CreateUnreliableTube(8); err == nil {
					victim.Accept()
					_ = d
				}
				ct, err := m.Client.CreateUnreliableTube(9)
				if err != nil {
					vrt.Fail("cannot open target tube: %v", err)
					return
				}
				target = ct.GetID()
				vt, _ = victim.Accept()
			} else {
				ct, err := m.Client.CreateReliableTube(9)
				if err != nil {
					vrt.Fail("cannot open target tube: %v", err)
					return
				}
				target = ct.GetID()
				vt, _ = victim.Accept()
				switch c.State {
				case 2:
					dropAcks = true
					vt.Write([]byte("in flight"))
				case 3:
					dropAcks = true
					vt.Close()
				case 6:
					// the victim's Stop is in progress: its FIN for the target tube is never
					// acknowledged, so the muxer sits in its stopping state until the fallback fires
					dropAcks = true
				case 4:
					ct.Close()
					vt.Close()
					vrt.Sleep(50 * time.Millisecond)
				}
			}
			vrt.Sleep(20 * time.Millisecond)
		}
		raw := append([]byte{}, c.Raw...)
		if len(raw) > 0 && raw[0] == 0xFE {
			raw[0] = target
		}
		if c.State == 6 {
			t0 := vrt.Now()
			var sw vsync.WaitGroup
			sw.Add(1)
			vrt.Go(func() { defer sw.Done(); victim.Stop() })
			vrt.Sleep(100 * time.Millisecond)
			m.SConn.Inject(raw)
			sw.Wait()
			if d := vrt.Since(t0); d > 5*time.Second {
				vrt.Fail("Muxer.Stop took %v of virtual time with the frame arriving while it was stopping", d)
			}
			m.Client.Stop()
			wg.Wait()
			return
		}
		m.SConn.Inject(raw)
		if c.Two != nil {
			m.SConn.Inject(c.Two)
		}
		vrt.Sleep(3 * time.Second)
		// the probe tube still works
		if _, err := pc.Write([]byte("ping")); err != nil {
			vrt.Fail("probe tube: write failed after the frame: %v", err)
		} else {
			pc.SetReadDeadline(vrt.Now().Add(20 * time.Second))
			buf := make([]byte, 8)
			n, err := io.ReadFull(pc, buf[:4])
			if err != nil || string(buf[:n]) != "ping" {
				vrt.Fail("probe tube no longer echoes after the frame (read %q, %v): the muxer stopped serving its other tubes", buf[:n], err)
			}
		}
		// and the muxer can still be stopped cleanly
		t0 := vrt.Now()
		var sw vsync.WaitGroup
		for _, mx := range []*tubes.Muxer{m.Server, m.Client} {
			mx := mx
			sw.Add(1)
			vrt.Go(func() { defer sw.Done(); mx.Stop() })
		}
		sw.Wait()
		if d := vrt.Since(t0); d > 5*time.Second {
			vrt.Fail("Muxer.Stop took %v of virtual time after the frame", d)
		}
		wg.Wait()
	})
	var ps []string
	if res.Deadlock != "" {
		ps = append(ps, "deadlock: "+res.Deadlock)
	}
	ps = append(ps, res.Panics...)
	ps = append(ps, res.Failures...)
	for _, l := range res.Leaked {
		ps = append(ps, "leaked: "+l)
	}
	if res.Horizon != "" {
		ps = append(ps, "horizon: "+res.Horizon)
	}
	return ps
}

func classify(p string) string {
	for _, k := range []string{"panic", "deadlock", "leaked", "probe tube", "Muxer.Stop took", "horizon"} {
		if strings.Contains(p, k) {
			if k == "panic" {
				if i := strings.Index(p, " @ "); i > 0 {
					fr := p[i+3:]
					if j := strings.Index(fr, " <"); j > 0 {
						fr = fr[:j]
					}
					return "panic@" + fr
				}
			}
			return strings.ReplaceAll(k, " ", "-")
		}
	}
	return "other"
}

func main() {
	flag.Parse()
	logrus.SetOutput(io.Discard)
	r := vk.New("C11", "fault_enumeration")
	ds := decoders()
	dcases := decoderCases(ds)
	fcases := frameCases(r.Thorough())
	if r.ReplayFile != "" {
		var c map[string]any
		r.LoadReplay(&c)
		if _, ok := c["raw"]; ok {
			var fc frameCase
			r.LoadReplay(&fc)
			for _, p := range runFrameCase(fc) {
				r.Violation("replayed:"+classify(p), p, fc)
			}
		} else {
			var dc decCase
			r.LoadReplay(&dc)
			if pn := vk.Try(func() { ds[dc.Dec].run(dc.Input) }); pn != "" {
				r.Violation("replayed:panic", pn, dc)
			}
		}
		r.Finish()
	}
	r.SetRule(fmt.Sprintf("A: %d decoder inputs over %d application-protocol decoders (intent request / communication, confirmation-or-denial, target info, proxy response, length-prefixed string, exec request, port-forward request, certificate, name, PEM): every truncation of valid encodings, every length field over {0,1,true-1,true+1,true+2,255,256,65535,65536,2^31-1,2^31,2^32-1} (as wide as the field), alone, cut right after the field and with a 300-byte tail, every enum byte over all 256 values, and for messages of at most 64 bytes the product length value x enum byte x value; oracle: no panic, bytes allocated while decoding <= 1 MiB + 64 x input length (a 16-bit length field can legitimately cost 64 KiB; the process-wide allocation counter carries a few KiB of noise). B: %d crafted frames (quick: every dimension against a baseline + flag pairs; thorough: full product of 64 flag combinations x {target tube, unknown tube} x 6 length-field values x 7 ack numbers x 7 frame numbers; plus short datagrams of 0..13 bytes) injected into a real muxer with the target tube in each of %v, executed deterministically under the controlled scheduler with a virtual clock; oracle: no thread panics, no deadlock, an untouched tube still echoes a probe, Stop returns within 5 virtual seconds, no thread left 15 virtual seconds later.", len(dcases), len(ds), len(fcases), stateNames))
	r.Isolated("decoders", len(dcases), func(i int) (string, any) {
		return fmt.Sprintf("decoder:%s:crash", ds[dcases[i].Dec].name), dcases[i]
	}, func(i int) vk.IsoResult {
		c := dcases[i]
		d := ds[c.Dec]
		var m0, m1 runtime.MemStats
		runtime.ReadMemStats(&m0)
		pn := vk.Try(func() { d.run(c.Input) })
		runtime.ReadMemStats(&m1)
		res := vk.IsoResult{Distinct: fmt.Sprintf("%s|%s", d.name, c.Desc)}
		if pn != "" {
			res.Problems = append(res.Problems, vk.Violation{Key: fmt.Sprintf("decoder:%s:panic", d.name), What: fmt.Sprintf("%s panics on input %q: %s", d.name, c.Desc, pn), Case: c})
		}
		if alloc := m1.TotalAlloc - m0.TotalAlloc; alloc > 1<<20+64*uint64(len(c.Input)) {
			res.Problems = append(res.Problems, vk.Violation{Key: fmt.Sprintf("decoder:%s:allocation", d.name), What: fmt.Sprintf("%s allocated %d bytes for a %d-byte input (%s)", d.name, alloc, len(c.Input), c.Desc), Case: c})
		}
		if i%1500 == 0 {
			res.Sample = map[string]any{"decoder": d.name, "input": c.Desc}
		}
		return res
	})
	r.Isolated("frames", len(fcases), func(i int) (string, any) {
		return fmt.Sprintf("frame:%s:crash", stateNames[fcases[i].State]), fcases[i]
	}, func(i int) vk.IsoResult {
		c := fcases[i]
		res := vk.IsoResult{Distinct: fmt.Sprintf("%s|%s", stateNames[c.State], c.Desc)}
		for _, p := range runFrameCase(c) {
			res.Problems = append(res.Problems, vk.Violation{Key: fmt.Sprintf("frame:%s:%s", stateNames[c.State], classify(p)), What: fmt.Sprintf("%s | tube state %s, frame %s", p, stateNames[c.State], c.Desc), Case: c})
		}
		if i%2500 == 0 {
			res.Sample = map[string]any{"tube_state": stateNames[c.State], "frame": c.Desc}
		}
		return res
	})
	r.Set("decoder_cases", len(dcases))
	r.Set("frame_cases", len(fcases))
	r.Assume("frames are executed at 0 scheduling deviations (one deterministic schedule per frame) under the virtual clock; decoders are fed through io.Reader / net.Conn wrappers over the byte string")
	r.Finish()
}
