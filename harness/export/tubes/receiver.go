//go:build verif

package tubes

import (
	"io"
	"sort"

	"github.com/sirupsen/logrus"
)

// White-box access to the reassembly core (tubes/receiver.go) for the C08 explicit-state search.

type VerifReceiver struct{ r *receiver }

// VerifNewReceiver builds a receiver as a freshly initiated tube has it (next expected frame =
// acknowledgement number = start; the real tube starts at 1).
func VerifNewReceiver(start uint64) *VerifReceiver {
	l := logrus.New()
	l.SetOutput(io.Discard)
	r := newReceiver(logrus.NewEntry(l))
	r.m.Lock()
	r.ackNo = start
	r.windowStart = start
	r.m.Unlock()
	return &VerifReceiver{r}
}

func (v *VerifReceiver) Receive(frameNo uint32, data []byte, fin, ack, rtr bool) (bool, error) {
	return v.r.receive(&frame{frameNo: frameNo, data: data, dataLength: uint16(len(data)), flags: frameFlags{FIN: fin, ACK: ack, RTR: rtr, REL: true}})
}

// Read performs one read with a buffer of n bytes unless it would block.
func (v *VerifReceiver) Read(n int) (data []byte, err error, wouldBlock bool) {
	v.r.m.Lock()
	wb := v.r.buffer.Len() == 0 && !v.r.closed.Load()
	v.r.m.Unlock()
	if wb {
		return nil, nil, true
	}
	buf := make([]byte, n)
	k, err := v.r.read(buf)
	return buf[:k], err, false
}

type VerifReceiverState struct {
	Ack         uint32
	AckNo       uint64
	WindowStart uint64
	Fragments   []uint64
	Buffered    []byte
	Closed      bool
}

func (v *VerifReceiver) State() VerifReceiverState {
	ack := v.r.getAck()
	v.r.m.Lock()
	defer v.r.m.Unlock()
	s := VerifReceiverState{Ack: ack, AckNo: v.r.ackNo, WindowStart: v.r.windowStart, Buffered: append([]byte{}, v.r.buffer.Bytes()...), Closed: v.r.closed.Load()}
	for _, it := range v.r.fragments {
		s.Fragments = append(s.Fragments, it.priority)
	}
	sort.Slice(s.Fragments, func(i, j int) bool { return s.Fragments[i] < s.Fragments[j] })
	return s
}

const VerifMaxWindowSize = maxWindowSize
