// Package vx is the explorer of E3: iterative deviation-bounded depth-first search over the
// recorded choices of vrt executions (CHESS-style: everything with 0 deviations, then 1, …;
// executions always run to completion). Deviations are bounded per category: preemption
// (leaving a still-runnable thread), order (choosing another thread when the running one
// blocked), select (a non-first ready case), timer (firing a timer although threads are
// runnable), env (a non-default environment choice).
package vx

import (
	"bufio"
	"encoding/json"
	"fmt"
	"os"
	"os/exec"
	"sort"
	"strings"
	"sync"
	"time"

	"hop.computer/hop/zzverif/vrt"
)

const (
	CPreempt = iota
	COrder
	CSelect
	CTimer
	CEnv
	NCat
)

var CatNames = []string{"preempt", "order", "select", "timer", "env"}

type Bounds [NCat]int

func (b Bounds) String() string {
	var s []string
	for i, n := range b {
		s = append(s, fmt.Sprintf("%s<=%d", CatNames[i], n))
	}
	return strings.Join(s, ",")
}

func cat(p vrt.Point) int {
	switch p.Kind {
	case vrt.KThread:
		if p.Preempt {
			return CPreempt
		}
		return COrder
	case vrt.KSelect:
		return CSelect
	case vrt.KTimer:
		return CTimer
	}
	return CEnv
}

// Scenario is one closed concurrent program.
type Scenario struct {
	Name string
	Cfg  vrt.Config
	Run  func()
	// Accept filters runtime verdicts the scenario expects (e.g. leaked background threads);
	// it returns the problems of one execution.
	Judge func(r *vrt.Result) []string
}

// DefaultJudge: deadlock, panic, failure, leak are problems; horizon is not.
func DefaultJudge(r *vrt.Result) []string {
	var ps []string
	if r.Deadlock != "" {
		ps = append(ps, "deadlock: "+r.Deadlock)
	}
	for _, p := range r.Panics {
		ps = append(ps, p)
	}
	ps = append(ps, r.Failures...)
	for _, l := range r.Leaked {
		ps = append(ps, "leaked: "+l)
	}
	return ps
}

type Problem struct {
	What    string `json:"what"`
	Choices []int  `json:"choices"`
}

type Stats struct {
	Executions int64            `json:"executions"`
	Points     int64            `json:"points"` // choice points met (transitions of the search)
	Traces     map[uint64]bool  `json:"-"`
	NTraces    int              `json:"traces"`
	Outcomes   map[string]int64 `json:"outcomes"`
	Problems   []Problem        `json:"problems"`
	Horizons   int64            `json:"horizons"`
	Diverged   int64            `json:"diverged"`
	MaxPoints  int              `json:"max_points"`
	Capped     bool             `json:"capped"`
	ByCat      [NCat]int64      `json:"by_cat"` // executions whose last deviation was of this category
}

func (s *Stats) merge(o *Stats) {
	s.Executions += o.Executions
	s.Points += o.Points
	s.Horizons += o.Horizons
	s.Diverged += o.Diverged
	if o.MaxPoints > s.MaxPoints {
		s.MaxPoints = o.MaxPoints
	}
	s.Capped = s.Capped || o.Capped
	for k, v := range o.Outcomes {
		s.Outcomes[k] += v
	}
	for k := range o.Traces {
		s.Traces[k] = true
	}
	if len(s.Problems) < 200 {
		s.Problems = append(s.Problems, o.Problems...)
	}
	for i := range s.ByCat {
		s.ByCat[i] += o.ByCat[i]
	}
}

func newStats() *Stats { return &Stats{Traces: map[uint64]bool{}, Outcomes: map[string]int64{}} }

type Explorer struct {
	Bounds   Bounds
	Total    int // bound on the total number of deviations of all categories (0 = no extra bound)
	Window   int // deviations only at choice points with index < Window (0 = everywhere)
	MaxExec  int64
	Deadline time.Time
	progress func(st *Stats, prefix []int, r *vrt.Result)
}

func (e *Explorer) expired() bool { return !e.Deadline.IsZero() && time.Now().After(e.Deadline) }

func problemKey(w string) string {
	if i := strings.Index(w, " @ "); i > 0 && strings.HasPrefix(w, "thread") {
		return w
	}
	return w
}

// runOne executes one choice list and judges it.
func runOne(sc *Scenario, choices []int) (*vrt.Result, []string) {
	r := vrt.Run(sc.Cfg, choices, sc.Run)
	j := sc.Judge
	if j == nil {
		j = DefaultJudge
	}
	return r, j(r)
}

// ExploreLocal runs the bounded search in this process (debugging, small spaces).
func (e *Explorer) ExploreLocal(sc *Scenario, progress func(st *Stats, prefix []int, r *vrt.Result)) *Stats {
	st := newStats()
	e.progress = progress
	e.subtree(sc, nil, st)
	st.NTraces = len(st.Traces)
	return st
}

// subtree explores everything below prefix (prefix itself included) within the bounds.
func (e *Explorer) subtree(sc *Scenario, prefix []int, st *Stats) {
	if st.Executions >= e.MaxExec && e.MaxExec > 0 || e.expired() {
		st.Capped = true
		return
	}
	r, ps := runOne(sc, prefix)
	st.Executions++
	if e.progress != nil {
		e.progress(st, prefix, r)
	}
	st.Points += int64(len(r.Points))
	if len(r.Points) > st.MaxPoints {
		st.MaxPoints = len(r.Points)
	}
	st.Traces[r.TraceHash] = true
	if r.Outcome != "" {
		st.Outcomes[r.Outcome]++
	}
	if r.Horizon != "" {
		st.Horizons++
	}
	if r.Diverged != "" {
		st.Diverged++
		st.Problems = append(st.Problems, Problem{What: "ENGINE: replay diverged: " + r.Diverged, Choices: append([]int{}, prefix...)})
		return
	}
	choices := make([]int, len(r.Points))
	for i, p := range r.Points {
		choices[i] = p.Chosen
	}
	for _, p := range ps {
		if len(st.Problems) < 200 {
			st.Problems = append(st.Problems, Problem{What: p, Choices: append([]int{}, choices...)})
		}
	}
	// deviations used along the executed path up to each point
	var used Bounds
	for i := 0; i < len(prefix) && i < len(r.Points); i++ {
		if r.Points[i].Chosen != 0 {
			used[cat(r.Points[i])]++
		}
	}
	usedTotal := 0
	for _, u := range used {
		usedTotal += u
	}
	for i := len(prefix); i < len(r.Points); i++ {
		if e.Window > 0 && i >= e.Window {
			break
		}
		p := r.Points[i]
		c := cat(p)
		if used[c]+1 <= e.Bounds[c] && (e.Total == 0 || usedTotal+1 <= e.Total) {
			for alt := 1; alt < p.N; alt++ {
				child := append(append(make([]int, 0, i+1), choices[:i]...), alt)
				e.subtree(sc, child, st)
				if st.Capped {
					return
				}
			}
		}
		// choices[i] is 0 beyond the prefix (default), so no deviation is added here
	}
}

// ---- multi-process exploration ----

// Registry maps scenario names to constructors so that worker processes can rebuild them.
var Registry = map[string]func(arg string) *Scenario{}

type job struct {
	Scenario string `json:"scenario"`
	Arg      string `json:"arg"`
	Prefix   []int  `json:"prefix"`
	Bounds   Bounds `json:"bounds"`
	Total    int    `json:"total"`
	Window   int    `json:"window"`
	MaxExec  int64  `json:"max_exec"`
	Budget   int64  `json:"budget_ms"`
}

type jobResult struct {
	Stats  *Stats   `json:"stats"`
	Hashes []uint64 `json:"hashes"`
	Err    string   `json:"err,omitempty"`
}

// WorkerMain serves exploration jobs on stdin/stdout; call it first thing in main() when the
// process was started with -vx-worker.
func WorkerMain() {
	in := bufio.NewReaderSize(os.Stdin, 1<<20)
	out := json.NewEncoder(os.Stdout)
	dec := json.NewDecoder(in)
	for {
		var j job
		if err := dec.Decode(&j); err != nil {
			return
		}
		mk, ok := Registry[j.Scenario]
		if !ok {
			out.Encode(jobResult{Err: "unknown scenario " + j.Scenario})
			continue
		}
		sc := mk(j.Arg)
		e := &Explorer{Bounds: j.Bounds, Total: j.Total, Window: j.Window, MaxExec: j.MaxExec}
		if j.Budget > 0 {
			e.Deadline = time.Now().Add(time.Duration(j.Budget) * time.Millisecond)
		}
		st := newStats()
		e.subtree(sc, j.Prefix, st)
		res := jobResult{Stats: st}
		for h := range st.Traces {
			res.Hashes = append(res.Hashes, h)
		}
		st.NTraces = 0
		out.Encode(res)
	}
}

// Explore runs the whole bounded search for one registered scenario using worker processes.
// The root execution and the first level of deviations are expanded in-process; each first-level
// subtree is a job.
func (e *Explorer) Explore(name, arg string, workers int) *Stats {
	mk := Registry[name]
	sc := mk(arg)
	total := newStats()
	// root
	root := &Explorer{Bounds: Bounds{}, MaxExec: 1}
	root.subtree(sc, nil, total)
	r, _ := runOne(sc, nil)
	total.Executions++ // the classification run
	if r.Diverged != "" {
		return total
	}
	var jobs []job
	for i, p := range r.Points {
		if e.Window > 0 && i >= e.Window {
			break
		}
		c := cat(p)
		if e.Bounds[c] < 1 {
			continue
		}
		for alt := 1; alt < p.N; alt++ {
			pre := make([]int, i+1)
			pre[i] = alt
			jobs = append(jobs, job{Scenario: name, Arg: arg, Prefix: pre, Bounds: e.Bounds, Total: e.Total, Window: e.Window, MaxExec: e.MaxExec})
		}
	}
	if len(jobs) == 0 {
		total.NTraces = len(total.Traces)
		return total
	}
	if workers > len(jobs) {
		workers = len(jobs)
	}
	var mu sync.Mutex
	next := 0
	var wg sync.WaitGroup
	for w := 0; w < workers; w++ {
		wg.Add(1)
		go func() {
			defer wg.Done()
			cmd := exec.Command(os.Args[0], "-vx-worker")
			cmd.Env = append(os.Environ(), "GOMAXPROCS=2")
			stdin, _ := cmd.StdinPipe()
			stdout, _ := cmd.StdoutPipe()
			cmd.Stderr = os.Stderr
			if err := cmd.Start(); err != nil {
				mu.Lock()
				total.Problems = append(total.Problems, Problem{What: "ENGINE: cannot start worker: " + err.Error()})
				mu.Unlock()
				return
			}
			enc := json.NewEncoder(stdin)
			dec := json.NewDecoder(bufio.NewReaderSize(stdout, 1<<20))
			for {
				mu.Lock()
				if next >= len(jobs) || (!e.Deadline.IsZero() && time.Now().After(e.Deadline)) {
					if next < len(jobs) {
						total.Capped = true
					}
					mu.Unlock()
					break
				}
				j := jobs[next]
				next++
				mu.Unlock()
				if !e.Deadline.IsZero() {
					j.Budget = int64(time.Until(e.Deadline) / time.Millisecond)
					if j.Budget < 1 {
						j.Budget = 1
					}
				}
				if err := enc.Encode(j); err != nil {
					break
				}
				var res jobResult
				if err := dec.Decode(&res); err != nil {
					mu.Lock()
					total.Problems = append(total.Problems, Problem{What: fmt.Sprintf("ENGINE: worker died on job prefix %v: %v", j.Prefix, err), Choices: j.Prefix})
					mu.Unlock()
					break
				}
				mu.Lock()
				if res.Err != "" {
					total.Problems = append(total.Problems, Problem{What: "ENGINE: " + res.Err})
				} else {
					if res.Stats.Traces == nil {
						res.Stats.Traces = map[uint64]bool{}
					}
					if res.Stats.Outcomes == nil {
						res.Stats.Outcomes = map[string]int64{}
					}
					for _, h := range res.Hashes {
						res.Stats.Traces[h] = true
					}
					total.merge(res.Stats)
				}
				mu.Unlock()
			}
			stdin.Close()
			cmd.Wait()
		}()
	}
	wg.Wait()
	total.NTraces = len(total.Traces)
	return total
}

// Replay re-executes one choice list twice and reports the problems if both runs agree.
func Replay(sc *Scenario, choices []int) (problems []string, stable bool, r *vrt.Result) {
	r1, p1 := runOne(sc, choices)
	r2, p2 := runOne(sc, choices)
	sort.Strings(p1)
	sort.Strings(p2)
	stable = r1.TraceHash == r2.TraceHash && strings.Join(p1, "|") == strings.Join(p2, "|") && r1.Diverged == "" && r2.Diverged == ""
	return p1, stable, r1
}
