#!/bin/sh
# runs every check's quick tier in sequence on /repo and prints one line per check
cd /verif
for id in C01 C02 C03 C04 C05 C06 C07 C08 C09 C10 C11 C12 C13 C14 C15 C16 C17 C18 C19 C20; do
  s=$(date +%s)
  ./check $id quick > /tmp/quick-$id.log 2>&1; rc=$?
  echo "$id rc=$rc $(( $(date +%s) - s ))s $(grep -c '^VIOLATION' /tmp/quick-$id.log) violations $(grep -c '^KNOWN' /tmp/quick-$id.log) known"
done
