#!/bin/sh
# usage: tools/seedtest.sh <id> <tier> <patch> [base-commit]
# Runs a check against a seeded change without touching /repo: a scratch worktree of /repo's
# HEAD (or of base-commit) gets the patch, the check is pointed at it with VERIF_REPO, and the
# worktree is removed afterwards.
id=$1; tier=$2; patch=$3; base=${4:-HEAD}
wt=/tmp/seedwt-$$
git -C /repo worktree add -q --detach $wt $base || exit 2
if ! git -C $wt apply $patch 2>/dev/null; then
  if ! git -C $wt apply --3way $patch >/dev/null 2>&1; then
    echo "PATCH DOES NOT APPLY to $base: $patch"; git -C /repo worktree remove --force $wt; exit 2
  fi
  echo "(applied with 3-way merge)"
fi
(cd /verif && VERIF_REPO=$wt VERIF_EVIDENCE_DIR=/tmp/seed-evidence-$$ ./check $id $tier 2>&1 | grep -E "SUMMARY|VIOLATION|ENGINE|KNOWN" | cut -c1-300 | head -${MUT_LINES:-3})
git -C /repo worktree remove --force $wt
rm -rf /tmp/seed-evidence-$$
