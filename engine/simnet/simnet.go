// Package simnet is the wire of E2: an in-memory implementation of transport.UDPLike in which
// nothing is delivered unless the explorer says so. WriteMsgUDP appends to an in-flight list;
// the explorer pops datagrams, alters them and delivers (or not). WaitQuiescent returns when
// every endpoint's inbox is empty and its (single) reader goroutine is parked inside
// ReadMsgUDP again — observed exactly, inside the conn — or no reader is expected any more.
package simnet

import (
	"errors"
	"net"
	"os"
	"sync"
	"time"
)

// Datagram is one UDP datagram on the simulated wire.
type Datagram struct {
	ID   int
	Src  *net.UDPAddr
	Dst  *net.UDPAddr
	Data []byte
}

func (d *Datagram) Clone() *Datagram {
	return &Datagram{ID: d.ID, Src: d.Src, Dst: d.Dst, Data: append([]byte{}, d.Data...)}
}

type Net struct {
	mu      sync.Mutex
	cond    *sync.Cond
	conns   []*Conn
	flight  []*Datagram
	Log     []*Datagram // every datagram ever written by an endpoint (wire capture)
	nextID  int
	Dropped int // deliveries to addresses nobody listens on
	holds   int // harness-owned activities in progress (e.g. a Handshake call that has not been recorded yet)
}

// Hold marks a harness-owned activity as in progress: the network is not quiescent until the
// matching Release. It closes the window between an endpoint call returning and the harness
// goroutine recording its result.
func (n *Net) Hold() {
	n.mu.Lock()
	n.holds++
	n.mu.Unlock()
}

func (n *Net) Release() {
	n.mu.Lock()
	n.holds--
	n.cond.Broadcast()
	n.mu.Unlock()
}

func New() *Net {
	n := &Net{}
	n.cond = sync.NewCond(&n.mu)
	return n
}

type packet struct {
	data []byte
	src  *net.UDPAddr
}

// Conn is one endpoint socket.
type Conn struct {
	n            *Net
	addr         *net.UDPAddr
	inbox        []packet
	parked       bool // the reader is waiting inside ReadMsgUDP on an empty inbox
	closed       bool
	expectReader bool
	deadline     time.Time
	timeoutNow   bool // explorer-injected deadline expiry for the parked reader
	Written      int
}

func Addr(ip string, port int) *net.UDPAddr {
	return &net.UDPAddr{IP: net.ParseIP(ip).To4(), Port: port}
}

// Listen creates an endpoint. expectReader says whether quiescence requires a parked reader.
func (n *Net) Listen(addr *net.UDPAddr, expectReader bool) *Conn {
	n.mu.Lock()
	defer n.mu.Unlock()
	c := &Conn{n: n, addr: addr, expectReader: expectReader}
	n.conns = append(n.conns, c)
	return c
}

// ExpectReader tells the quiescence detector whether a reader goroutine is (still) expected on
// this conn (false once a client handshake has failed: nobody will read again).
func (c *Conn) ExpectReader(v bool) {
	c.n.mu.Lock()
	c.expectReader = v
	c.n.cond.Broadcast()
	c.n.mu.Unlock()
}

func (c *Conn) quiescentLocked() bool {
	if c.closed {
		return true
	}
	if len(c.inbox) != 0 {
		return !c.expectReader
	}
	return c.parked || !c.expectReader
}

// ErrNotQuiescent is returned by WaitQuiescent when the safety timeout expires (engine error,
// never a property verdict).
var ErrNotQuiescent = errors.New("simnet: endpoints did not come to rest")

// WaitQuiescent blocks until all endpoints are at rest.
func (n *Net) WaitQuiescent() error {
	deadline := time.Now().Add(30 * time.Second)
	// every state change broadcasts; the timer only wakes the waiter up for the safety deadline
	// (no helper goroutine: checks count goroutines)
	t := time.AfterFunc(31*time.Second, func() {
		n.mu.Lock()
		n.cond.Broadcast()
		n.mu.Unlock()
	})
	defer t.Stop()
	n.mu.Lock()
	defer n.mu.Unlock()
	for {
		ok := n.holds == 0
		for _, c := range n.conns {
			if !c.quiescentLocked() {
				ok = false
				break
			}
		}
		if ok {
			return nil
		}
		if time.Now().After(deadline) {
			return ErrNotQuiescent
		}
		n.cond.Wait()
	}
}

// Pop removes and returns the oldest in-flight datagram (nil if none).
func (n *Net) Pop() *Datagram {
	n.mu.Lock()
	defer n.mu.Unlock()
	if len(n.flight) == 0 {
		return nil
	}
	d := n.flight[0]
	n.flight = n.flight[1:]
	return d
}

// InFlight returns the number of datagrams waiting for the explorer.
func (n *Net) InFlight() int {
	n.mu.Lock()
	defer n.mu.Unlock()
	return len(n.flight)
}

// LogLen returns the number of datagrams written so far.
func (n *Net) LogLen() int {
	n.mu.Lock()
	defer n.mu.Unlock()
	return len(n.Log)
}

// LogSince returns copies of the datagrams written since index i.
func (n *Net) LogSince(i int) []*Datagram {
	n.mu.Lock()
	defer n.mu.Unlock()
	var out []*Datagram
	for _, d := range n.Log[i:] {
		out = append(out, d.Clone())
	}
	return out
}

func (n *Net) find(addr *net.UDPAddr) *Conn {
	for _, c := range n.conns {
		if !c.closed && c.addr.Port == addr.Port && c.addr.IP.Equal(addr.IP) {
			return c
		}
	}
	return nil
}

// Deliver hands data to the endpoint listening on dst as if it came from src.
func (n *Net) Deliver(data []byte, src, dst *net.UDPAddr) bool {
	n.mu.Lock()
	defer n.mu.Unlock()
	c := n.find(dst)
	if c == nil {
		n.Dropped++
		return false
	}
	c.inbox = append(c.inbox, packet{append([]byte{}, data...), src})
	c.parked = false // claim the parked reader: it is now (about to be) running
	n.cond.Broadcast()
	return true
}

// DeliverD delivers a datagram unchanged.
func (n *Net) DeliverD(d *Datagram) bool { return n.Deliver(d.Data, d.Src, d.Dst) }

// FireDeadline makes the reader parked on c return a timeout error, if it has a deadline set.
func (c *Conn) FireDeadline() bool {
	c.n.mu.Lock()
	defer c.n.mu.Unlock()
	if !c.parked || c.deadline.IsZero() {
		return false
	}
	c.timeoutNow = true
	c.parked = false
	c.n.cond.Broadcast()
	return true
}

// HasDeadline reports whether a read deadline is armed.
func (c *Conn) HasDeadline() bool {
	c.n.mu.Lock()
	defer c.n.mu.Unlock()
	return !c.deadline.IsZero()
}

func (c *Conn) Addr() *net.UDPAddr { return c.addr }

// ---- transport.UDPLike ----

func (c *Conn) WriteMsgUDP(b, oob []byte, addr *net.UDPAddr) (int, int, error) {
	c.n.mu.Lock()
	defer c.n.mu.Unlock()
	if c.closed {
		return 0, 0, net.ErrClosed
	}
	if addr == nil {
		return 0, 0, errors.New("simnet: nil destination")
	}
	d := &Datagram{ID: c.n.nextID, Src: c.addr, Dst: addr, Data: append([]byte{}, b...)}
	c.n.nextID++
	c.n.flight = append(c.n.flight, d)
	c.n.Log = append(c.n.Log, d)
	c.Written++
	c.n.cond.Broadcast()
	return len(b), 0, nil
}

func (c *Conn) ReadMsgUDP(b, oob []byte) (int, int, int, *net.UDPAddr, error) {
	c.n.mu.Lock()
	defer c.n.mu.Unlock()
	for len(c.inbox) == 0 && !c.closed && !c.timeoutNow {
		c.parked = true
		c.n.cond.Broadcast()
		c.n.cond.Wait()
	}
	if c.timeoutNow {
		c.timeoutNow = false
		return 0, 0, 0, nil, os.ErrDeadlineExceeded
	}
	if len(c.inbox) == 0 && c.closed {
		return 0, 0, 0, nil, net.ErrClosed
	}
	p := c.inbox[0]
	c.inbox = c.inbox[1:]
	n := copy(b, p.data)
	return n, 0, 0, p.src, nil
}

func (c *Conn) Read(b []byte) (int, error) {
	n, _, _, _, err := c.ReadMsgUDP(b, nil)
	return n, err
}

func (c *Conn) Write(b []byte) (int, error) { return 0, errors.New("simnet: unconnected Write") }

func (c *Conn) Close() error {
	c.n.mu.Lock()
	defer c.n.mu.Unlock()
	if c.closed {
		return net.ErrClosed
	}
	c.closed = true
	c.n.cond.Broadcast()
	return nil
}

func (c *Conn) LocalAddr() net.Addr  { return c.addr }
func (c *Conn) RemoteAddr() net.Addr { return nil }

func (c *Conn) SetDeadline(t time.Time) error { return c.SetReadDeadline(t) }
func (c *Conn) SetReadDeadline(t time.Time) error {
	c.n.mu.Lock()
	c.deadline = t
	c.n.mu.Unlock()
	return nil
}
func (c *Conn) SetWriteDeadline(t time.Time) error { return nil }

// PushFront puts a popped datagram back at the head of the in-flight list.
func (n *Net) PushFront(d *Datagram) {
	n.mu.Lock()
	n.flight = append([]*Datagram{d}, n.flight...)
	n.mu.Unlock()
}
