//go:build verif

package hopserver

import (
	"io/fs"
	"net"
	"os"

	"hop.computer/hop/authgrants"
	"hop.computer/hop/certs"
	"hop.computer/hop/keys"
	"hop.computer/hop/transport"
	"hop.computer/hop/tubes"
)

// VerifListen, when set, replaces the UDP socket NewHopServer opens (check-time source seam
// "hopserver-listen"): the real NewHopServer then wires its real certificate callbacks and
// client-verification policy onto a simulated socket.
var VerifListen func(addr string) (transport.UDPLike, error)

type verifPacketConn interface {
	transport.UDPLike
}

func verifListenPacket(addr string) (verifPacketConn, error) {
	if VerifListen != nil {
		return VerifListen(addr)
	}
	pc, err := net.ListenPacket("udp", addr)
	if err != nil {
		return nil, err
	}
	return pc.(*net.UDPConn), nil
}

// ---- white-box access for the authorization checks (C05 / C07) ----

// VerifSetFS installs an arbitrary file system (SetFSystem only takes fstest.MapFS).
func (s *HopServer) VerifSetFS(f fs.FS) { s.fsystem = f }

// VerifGrantState renders the grant map and the transport key set canonically.
func (s *HopServer) VerifGrantState() string {
	return s.agMap.VerifDump() + "|keys=" + s.keyStore.VerifDump()
}

// VerifSession is a hopSession without transport or muxer, for handler-level exploration.
type VerifSession struct{ s *hopSession }

func (s *HopServer) VerifNewSession(user string, viaGrant bool, actions []authgrants.Authgrant) *VerifSession {
	return &VerifSession{&hopSession{server: s, user: user, usingAuthGrant: viaGrant, authorizedActions: actions, pty: make(chan *os.File, 1)}}
}

// CheckCmd is the gate startCodex applies to grant-admitted sessions.
func (v *VerifSession) CheckCmd(cmd string, shell bool) error {
	_, err := v.s.checkCmd(cmd, shell)
	return err
}

func (v *VerifSession) Actions() int { return len(v.s.authorizedActions) }

// CheckIntent is the target-side policy check for further grant issuing.
func (v *VerifSession) CheckIntent(i authgrants.Intent, c *certs.Certificate) error {
	return v.s.checkIntent(i, c)
}

// VerifGrantNames lists the command texts of the grants still stored for user/key.
func VerifGrantNames(s *HopServer, user string, key keys.DHPublicKey) []string {
	return s.agMap.VerifNames(user, key)
}

// SetPeerLeaf gives the session a transport handle that reports leaf as the client certificate.
func (v *VerifSession) SetPeerLeaf(leaf *certs.Certificate) {
	v.s.transportConn = transport.VerifHandleWithLeaf(leaf)
}

// HandleAgc / StartPF are what hopSession.start dispatches an authorization-grant tube and a
// port-forwarding control tube to.
func (v *VerifSession) HandleAgc(t *tubes.Reliable) { v.s.handleAgc(t) }
func (v *VerifSession) StartPF(t *tubes.Reliable, m *tubes.Muxer) {
	v.s.tubeMuxer = m
	v.s.startPF(t)
}
