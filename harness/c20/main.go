// C20 — glob matching is total and is glob matching: complete enumeration of (pattern, input)
// pairs over a small alphabet against a DP reference, plus host-block / virtual-host lists.
package main

import (
	"fmt"
	"strings"

	"hop.computer/hop/config"
	"hop.computer/hop/hopserver"
	"hop.computer/hop/pkg/glob"
	"hop.computer/hop/zzverif/refglob"
	"hop.computer/hop/zzverif/vk"
)

func words(alpha string, maxLen int) []string {
	out := []string{""}
	prev := []string{""}
	for l := 1; l <= maxLen; l++ {
		var cur []string
		for _, w := range prev {
			for i := 0; i < len(alpha); i++ {
				cur = append(cur, w+alpha[i:i+1])
			}
		}
		out = append(out, cur...)
		prev = cur
	}
	return out
}

type pair struct {
	Pattern string `json:"pattern"`
	Input   string `json:"input"`
}

func checkPair(r *vk.Run, p, in string) {
	r.Eval()
	want := refglob.Match(p, in)
	var got bool
	if pn := vk.Try(func() { got = glob.Glob(p, in) }); pn != "" {
		r.Violation(fmt.Sprintf("glob:panic:%q~%q", p, in), fmt.Sprintf("Glob(%q,%q) %s", p, in, pn), pair{p, in})
		return
	}
	if got != want {
		r.Violation(fmt.Sprintf("glob:%q~%q", p, in), fmt.Sprintf("Glob(%q,%q)=%v, reference %v", p, in, got, want), pair{p, in})
	}
}

func main() {
	r := vk.New("C20", "exploration")
	if r.ReplayFile != "" {
		var p pair
		if err := r.LoadReplay(&p); err != nil {
			fmt.Println(err)
		}
		checkPair(r, p.Pattern, p.Input)
		r.Finish()
	}
	pa, ia, pl, il := "ab*", "ab", 6, 7
	if r.Thorough() {
		pa, ia, pl, il = "abc*", "abc", 6, 7
	}
	pats, ins := words(pa, pl), words(ia, il)
	r.SetRule(fmt.Sprintf("every (pattern,input) with pattern over {%s} up to length %d (%d patterns) and input over {%s} up to length %d (%d inputs), each call under recover, compared with a DP reference; long systematic cases from token concatenations; all host-block lists and virtual-host lists from a fixed pattern set. distinct_nontrivial counts distinct pairs whose pattern contains a '*' and a literal (i.e. where matching is not plain equality).", pa, pl, len(pats), ia, il, len(ins)))
	var nontriv int64
	results := make([]int64, len(pats))
	r.Parallel(len(pats), func(i int) {
		p := pats[i]
		nt := strings.Contains(p, "*") && strings.Trim(p, "*") != ""
		for _, in := range ins {
			checkPair(r, p, in)
		}
		if nt {
			results[i] = int64(len(ins))
		}
	})
	for _, n := range results {
		nontriv += n
	}
	// long systematic cases
	toks := []string{"a", "ab", "*", "**", "ba"}
	var longPats []string
	var rec func(cur string, n int)
	rec = func(cur string, n int) {
		longPats = append(longPats, cur)
		if n == 5 {
			return
		}
		for _, t := range toks {
			rec(cur+t, n+1)
		}
	}
	rec("", 0)
	longIns := []string{}
	for _, u := range []string{"a", "b", "ab", "ba", "aab", "abab"} {
		for n := 0; n <= 40/len(u); n += 3 {
			longIns = append(longIns, strings.Repeat(u, n), strings.Repeat(u, n)+"b", "b"+strings.Repeat(u, n)+"a")
		}
	}
	r.Parallel(len(longPats), func(i int) {
		for _, in := range longIns {
			checkPair(r, longPats[i], in)
		}
	})
	r.Set("long_patterns", len(longPats))
	r.Set("long_inputs", len(longIns))

	// host blocks: every list of <=3 blocks, each with 1..2 patterns from a fixed set, x inputs
	patset := []string{"*", "a", "a*", "*a", "*.b", "a.b", "a*b", ""}
	inputs := []string{"", "a", "a.b", "ab", "b", "aab"}
	var blocks [][]string
	for i := range patset {
		blocks = append(blocks, []string{patset[i]})
		for j := range patset {
			if i != j {
				blocks = append(blocks, []string{patset[i], patset[j]})
			}
		}
	}
	nb := len(blocks)
	var lists [][]int
	lists = append(lists, []int{})
	for a := 0; a < nb; a++ {
		lists = append(lists, []int{a})
	}
	maxTriples := 8 // patterns used for the third block (single-pattern blocks only) to keep the product finite and small
	for a := 0; a < nb; a++ {
		for b := 0; b < nb; b++ {
			lists = append(lists, []int{a, b})
			if r.Thorough() {
				for c := 0; c < maxTriples; c++ {
					lists = append(lists, []int{a, b, c * 8}) // blocks[c*8] = single-pattern block for pattern c
				}
			}
		}
	}
	if !r.Thorough() {
		// quick: triples of single-pattern blocks only
		for a := 0; a < len(patset); a++ {
			for b := 0; b < len(patset); b++ {
				for c := 0; c < len(patset); c++ {
					lists = append(lists, []int{a * 8, b * 8, c * 8})
				}
			}
		}
	}
	var hostCases int64
	r.Parallel(len(lists), func(li int) {
		l := lists[li]
		for _, in := range inputs {
			r.Eval()
			gu := "global"
			cc := &config.ClientConfig{Global: config.HostConfigOptional{User: &gu, CAFiles: nil}}
			var wantCA []string
			wantUser := "global"
			for k, bi := range l {
				tag := fmt.Sprintf("blk%d", k)
				u := tag
				cc.Hosts = append(cc.Hosts, config.HostConfigOptional{Patterns: blocks[bi], User: &u, CAFiles: []string{tag}})
				m := false
				for _, p := range blocks[bi] {
					if refglob.Match(p, in) {
						m = true
					}
				}
				if m {
					wantCA = append(wantCA, tag)
					wantUser = tag
				}
			}
			var got *config.HostConfigOptional
			key := fmt.Sprintf("matchhost:%v~%q", listPats(blocks, l), in)
			if pn := vk.Try(func() { got = cc.MatchHost(in) }); pn != "" {
				r.Violation(key, "MatchHost "+pn, map[string]any{"blocks": listPats(blocks, l), "input": in})
				continue
			}
			gotUser := ""
			if got.User != nil {
				gotUser = *got.User
			}
			if strings.Join(got.CAFiles, ",") != strings.Join(wantCA, ",") || gotUser != wantUser {
				r.Violation(key, fmt.Sprintf("MatchHost(%q) applied blocks %v (user %s), reference %v (user %s)", in, got.CAFiles, gotUser, wantCA, wantUser), map[string]any{"blocks": listPats(blocks, l), "input": in})
			}
			// virtual hosts: the first pattern of each block as a vhost list
			var vh hopserver.VirtualHosts
			want := -1
			for k, bi := range l {
				vh = append(vh, hopserver.VirtualHost{Pattern: blocks[bi][0]})
				if want < 0 && refglob.Match(blocks[bi][0], in) {
					want = k
				}
			}
			var gv *hopserver.VirtualHost
			if pn := vk.Try(func() { gv = vh.Match(in) }); pn != "" {
				r.Violation("v"+key, "VirtualHosts.Match "+pn, map[string]any{"blocks": listPats(blocks, l), "input": in})
				continue
			}
			gi := -1
			for k := range vh {
				if gv == &vh[k] {
					gi = k
				}
			}
			if gi != want {
				r.Violation("v"+key, fmt.Sprintf("VirtualHosts.Match(%q) chose index %d, reference %d", in, gi, want), map[string]any{"blocks": listPats(blocks, l), "input": in})
			}
		}
	})
	hostCases = int64(len(lists) * len(inputs))
	r.Set("host_block_cases", hostCases)
	r.Set("glob_pairs", int64(len(pats))*int64(len(ins)))
	// distinct non-trivial: pairs counted above (each (pattern,input) pair is distinct by construction)
	for i, n := range results {
		if n > 0 {
			r.Distinct(pats[i])
		}
	}
	r.Set("distinct_nontrivial_pairs", nontriv)
	r.Sample(pair{"*ab", "aab"})
	r.Sample(pair{"a*b*", "abab"})
	r.Sample(map[string]any{"blocks": [][]string{{"a*"}, {"*.b", "a"}}, "input": "a.b"})
	r.Finish()
}

func listPats(blocks [][]string, l []int) [][]string {
	var o [][]string
	for _, b := range l {
		o = append(o, blocks[b])
	}
	return o
}
