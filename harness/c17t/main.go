// C17 (transport part) — transport client / handle / server under concurrent use.
//
// The transport and common packages are rewritten for the deterministic scheduler and run a real
// client and a real server over vnet (an in-memory datagram network rewritten with them). Small
// concurrent programs over Handshake / Read / Write / SetReadDeadline / Close / Accept are
// executed under every schedule within the deviation bounds.
package main

import (
	"errors"
	"flag"
	"fmt"
	"io"
	"net"
	"os"
	"strings"
	"sync"
	"time"

	"github.com/sirupsen/logrus"

	"hop.computer/hop/transport"
	"hop.computer/hop/zzverif/fix"
	"hop.computer/hop/zzverif/vk"
	"hop.computer/hop/zzverif/vnet"
	"hop.computer/hop/zzverif/vrt"
	"hop.computer/hop/zzverif/vsync"
	"hop.computer/hop/zzverif/vx"
)

var worker = flag.Bool("vx-worker", false, "internal")
var racePass = flag.Bool("race-pass", false, "internal: child mode of the -race build (no scheduler rewrite): runs every program free and reports the races")
var freeProg = flag.String("free-prog", "", "internal: run one program free-running")
var freeRuns = flag.Int("free-runs", 1, "internal")

// Waiting times of a program. Under the scheduler they are virtual; the free-running pass
// (real time) shortens them.
var (
	reapAfter   = 60 * time.Second
	hsTimeout   = 5 * time.Second
	acceptWait  = 6 * time.Second
	setupAccept = 5 * time.Second
)

// A program. Client threads and handle threads are op strings:
//
//	h Handshake   c Close   r Read (blocking)   t Read after SetReadDeadline(now+50ms)
//	w Write("x")  d SetReadDeadline(now+30ms)   z SetReadDeadline(zero)   s sleep 20 ms (virtual)
//
// Pre: "open" = the client completed its handshake and the server accepted the handle before the
// threads start; "queued" = additionally the server wrote one message that reached the client's
// receive queue. SrvClose adds a thread that closes the server.
type prog struct {
	Pre      string
	Client   []string
	Handle   []string
	SrvClose bool
	Hidden   bool
}

func (p prog) String() string {
	return fmt.Sprintf("%s;%s;%s;%v;%v", p.Pre, strings.Join(p.Client, ","), strings.Join(p.Handle, ","), p.SrvClose, p.Hidden)
}

func parse(s string) prog {
	f := strings.Split(s, ";")
	p := prog{Pre: f[0], SrvClose: f[3] == "true", Hidden: f[4] == "true"}
	if f[1] != "" {
		p.Client = strings.Split(f[1], ",")
	}
	if f[2] != "" {
		p.Handle = strings.Split(f[2], ",")
	}
	return p
}

var std = fix.NewStd()

var mu sync.Mutex // bookkeeping only; never held across a blocking call

func errName(err error) string {
	var ne net.Error
	switch {
	case err == nil:
		return "ok"
	case errors.Is(err, io.EOF):
		return "EOF"
	case errors.Is(err, os.ErrDeadlineExceeded) || (errors.As(err, &ne) && ne.Timeout()):
		return "timeout"
	case errors.Is(err, net.ErrClosed):
		return "closed"
	}
	return "err(" + err.Error() + ")"
}

type conn interface {
	Read([]byte) (int, error)
	Write([]byte) (int, error)
	SetReadDeadline(time.Time) error
	Close() error
}

func scenario(arg string) *vx.Scenario {
	p := parse(arg)
	return &vx.Scenario{Name: "transport:" + arg, Cfg: vrt.Config{MaxSteps: 400000, MaxTime: 10 * time.Minute, Settle: 30 * time.Second}, Judge: func(r *vrt.Result) []string {
		ps := vx.DefaultJudge(r)
		// every program ends within seconds of virtual time (the longest wait is a 6 s accept
		// timeout): still running at the 10-minute cap means a call never returned while some
		// periodic timer kept the clock moving
		if r.Horizon != "" {
			ps = append(ps, "never returned: "+r.Horizon)
		}
		return ps
	}, Run: func() {
		nw := vnet.New()
		sa := &net.UDPAddr{IP: net.IPv4(10, 0, 0, 1), Port: 77}
		ca := &net.UDPAddr{IP: net.IPv4(10, 0, 0, 2), Port: 4000}
		scfg := std.ServerConfig(p.Hidden)
		scfg.HandshakeTimeout = hsTimeout
		srv, err := transport.NewServer(nw.Listen(sa), scfg)
		if err != nil {
			vrt.Fail("NewServer: %v", err)
			return
		}
		var bg vsync.WaitGroup
		bg.Add(1)
		vrt.Go(func() { defer bg.Done(); srv.Serve() })
		ccfg := std.ClientConfig(p.Hidden)
		ccfg.HSTimeout = hsTimeout
		cl := transport.NewClient(nw.Dial(ca, sa), sa, ccfg)
		var h *transport.Handle
		if p.Pre != "" {
			if err := cl.Handshake(); err != nil {
				vrt.Fail("set-up handshake failed: %v", err)
				return
			}
			h, err = srv.AcceptTimeout(setupAccept)
			if err != nil {
				vrt.Fail("set-up accept failed: %v", err)
				return
			}
			if p.Pre == "queued" {
				if _, err := h.Write([]byte("m1")); err != nil {
					vrt.Fail("set-up write failed: %v", err)
				}
				// white-box: wait until the message really sits in the client's receive queue
				for i := 0; cl.VerifHandle().VerifRecvLen() < 1; i++ {
					if i > 1000 {
						vrt.Fail("set-up: the message never reached the client's queue")
						return
					}
					vrt.Sleep(time.Millisecond)
				}
			}
		}
		var results []string
		var closeRes = map[string][]string{}
		var firstRead = map[string]string{}
		note := func(who string, ti int, op byte, res string) {
			mu.Lock()
			results = append(results, fmt.Sprintf("%s%d.%c=%s", who, ti, op, res))
			mu.Unlock()
		}
		run := func(who string, ti int, c conn, hs func() error, ops string) {
			for i := 0; i < len(ops); i++ {
				op := ops[i]
				switch op {
				case 'h':
					note(who, ti, op, errName(hs()))
				case 'c':
					r := errName(c.Close())
					mu.Lock()
					closeRes[who] = append(closeRes[who], r)
					mu.Unlock()
					note(who, ti, op, r)
				case 'r', 't':
					if op == 't' {
						c.SetReadDeadline(vrt.Now().Add(50 * time.Millisecond))
					}
					buf := make([]byte, 16)
					n, err := c.Read(buf)
					r := errName(err)
					if n > 0 {
						r = string(buf[:n])
					}
					mu.Lock()
					if _, ok := firstRead[who]; !ok {
						firstRead[who] = r
					}
					mu.Unlock()
					note(who, ti, op, r)
				case 'w':
					_, err := c.Write([]byte("x"))
					note(who, ti, op, errName(err))
				case 'd':
					c.SetReadDeadline(vrt.Now().Add(30 * time.Millisecond))
				case 'z':
					c.SetReadDeadline(time.Time{})
				case 's':
					vrt.Sleep(20 * time.Millisecond)
				}
			}
		}
		// A blocking Read with nobody left to release it is legitimate (the peer is not told
		// about every close): after 60 virtual seconds a reaper closes both ends, and only what
		// is still blocked after that never returns.
		bg.Add(1)
		vrt.Go(func() {
			defer bg.Done()
			vrt.Sleep(reapAfter)
			cl.Close()
			srv.Close()
		})
		var wg vsync.WaitGroup
		for ti, ops := range p.Client {
			ti, ops := ti, ops
			wg.Add(1)
			vrt.Go(func() { defer wg.Done(); run("C", ti, cl, cl.Handshake, ops) })
		}
		if len(p.Handle) > 0 {
			wg.Add(1)
			vrt.Go(func() {
				defer wg.Done()
				hh := h
				if hh == nil {
					var err error
					hh, err = srv.AcceptTimeout(acceptWait)
					if err != nil {
						note("H", 0, 'a', errName(err))
						return
					}
				}
				var hw vsync.WaitGroup
				for ti, ops := range p.Handle {
					ti, ops := ti, ops
					hw.Add(1)
					vrt.Go(func() {
						defer hw.Done()
						run("H", ti, hh, func() error { return nil }, ops)
					})
				}
				hw.Wait()
			})
		}
		if p.SrvClose {
			wg.Add(1)
			vrt.Go(func() {
				defer wg.Done()
				r := errName(srv.Close())
				mu.Lock()
				closeRes["S"] = append(closeRes["S"], r)
				mu.Unlock()
			})
		}
		wg.Wait()
		// epilogue: close everything once more (idempotence) and make sure late calls return
		r1 := errName(cl.Close())
		mu.Lock()
		closeRes["C"] = append(closeRes["C"], r1)
		mu.Unlock()
		buf := make([]byte, 8)
		if n, err := cl.Read(buf); err == nil && p.Pre != "queued" && !strings.Contains(strings.Join(p.Handle, ""), "w") {
			vrt.Fail("Read on the closed client returned %q, nil", buf[:n])
		}
		if _, err := cl.Write([]byte("late")); err == nil {
			vrt.Fail("Write on the closed client succeeded")
		}
		r2 := errName(srv.Close())
		mu.Lock()
		closeRes["S"] = append(closeRes["S"], r2)
		mu.Unlock()
		bg.Wait()
		mu.Lock()
		defer mu.Unlock()
		for who, rs := range closeRes {
			for _, r := range rs[1:] {
				if r != rs[0] {
					vrt.Fail("Close on %s reported different results to its callers: %v", who, rs)
					break
				}
			}
		}
		if p.Pre == "queued" {
			if fr, ok := firstRead["C"]; ok && fr != "m1" {
				vrt.Fail("a message was queued on the client before any Close began, but the first Read returned %q instead of it (results %v)", fr, results)
			}
		}
		vrt.Outcome("%v close=%v", results, closeRes)
	}}
}

func classify(w string) string {
	for _, k := range []string{"deadlock", "never returned", "panic", "leaked", "different results", "instead of it", "on the closed client", "set-up"} {
		if strings.Contains(w, k) {
			return strings.ReplaceAll(k, " ", "-")
		}
	}
	return "other"
}

func programs(thorough bool) (all, core []prog) {
	for _, hidden := range []bool{false, true} {
		// handshake racing close, concurrent handshakes
		for _, c := range [][]string{{"h", "c"}, {"hr", "c"}, {"h", "h"}, {"h", "h", "c"}, {"hw", "sc"}, {"ht", "c"}, {"h", "c", "c"}} {
			all = append(all, prog{Client: c, Hidden: hidden})
		}
		all = append(all, prog{Client: []string{"hwr"}, Handle: []string{"rw"}, Hidden: hidden},
			prog{Client: []string{"h", "c"}, Handle: []string{"r"}, Hidden: hidden},
			prog{Client: []string{"h"}, SrvClose: true, Hidden: hidden},
			prog{Client: []string{"ht"}, Handle: []string{"r"}, SrvClose: true, Hidden: hidden})
	}
	// open session: reads, deadlines and closes
	for _, c := range [][]string{{"r", "c"}, {"r", "c", "c"}, {"r", "r", "c"}, {"t", "c"}, {"dr", "z"}, {"r", "d"}, {"w", "c"}, {"r", "w", "c"}} {
		all = append(all, prog{Pre: "open", Client: c})
		all = append(all, prog{Pre: "open", Handle: c})
	}
	all = append(all, prog{Pre: "open", Client: []string{"r"}, Handle: []string{"c"}},
		prog{Pre: "open", Client: []string{"t"}, Handle: []string{"r"}, SrvClose: true},
		prog{Pre: "open", Client: []string{"wr", "c"}, Handle: []string{"rw", "c"}},
		prog{Pre: "queued", Client: []string{"rr", "c"}},
		prog{Pre: "queued", Client: []string{"r", "c"}},
		prog{Pre: "queued", Client: []string{"c", "sr"}})
	// handshake racing close gets the deepest bound: the interesting windows are a few steps wide
	core = []prog{{Client: []string{"h", "c"}}, {Client: []string{"h", "c"}, Hidden: true}, {Client: []string{"h", "sc"}, Hidden: true},
		{Pre: "open", Client: []string{"r", "c"}}, {Pre: "open", Handle: []string{"r", "c"}}, {Pre: "queued", Client: []string{"r", "c"}}, {Pre: "open", Client: []string{"dr", "z"}}}
	return
}

// racePassMain is the child mode of the -race build of this harness: transport and common are
// the repository's packages as they are (no scheduler rewrite), every program runs free in a
// subprocess of its own with real goroutines and real (shortened) waiting times, and every
// report of the race detector whose two accesses are both in repository code is a violation.
func racePassMain() {
	r := vk.New("C17", "model_checking")
	runs := 2
	if r.Thorough() {
		runs = 12
	}
	all, _ := programs(true)
	self, _ := os.Executable()
	var rmu sync.Mutex
	racy := map[string]int{}
	r.Parallel(len(all), func(i int) {
		p := all[i]
		reps, timedOut, err := vk.RaceExec(self, []string{"-free-prog", p.String(), "-free-runs", fmt.Sprint(runs)}, "hop.computer/hop", 3*time.Minute)
		rmu.Lock()
		defer rmu.Unlock()
		if timedOut {
			r.Cap("free-running program did not end within 3 minutes (not an oracle here): " + p.String())
		} else if err != nil {
			r.EngineError("free-running program %s: %v", p, err)
		}
		for _, rr := range reps {
			if !rr.InRepo("hop.computer/hop") {
				r.AddInt("race_reports_outside_repository_code", 1)
				continue
			}
			racy[rr.Key()]++
			r.Violation("race:"+rr.Key(), fmt.Sprintf("data race between %s and %s | program: %s (free-running -race pass, %d runs)", rr.A, rr.B, p, runs), map[string]any{"scenario": "race-transport", "arg": p.String(), "report": rr.Text})
		}
	})
	r.EvalN(int64(len(all) * runs))
	r.Set("race_pass_programs", len(all))
	r.Set("race_pass_runs_per_program", runs)
	r.Set("race_pass_exhaustive", false)
	r.Distinct("race-pass-transport")
	r.SetRule(fmt.Sprintf("free-running -race pass: the %d transport programs (same bodies as the scheduler-controlled part), packages transport and common exactly as compiled from the repository with the race detector, real goroutines over the in-memory network, waiting times shortened (reaper 0.7 s, handshake timeout 0.4 s), %d runs each in a subprocess per program; every detector report whose two conflicting accesses are both in repository code is a violation. Supplementary to the scheduler-controlled exploration (which cannot see unsynchronised accesses); observes the schedules the runtime produces, not exhaustive.", len(all), runs))
	r.Finish()
}

func main() {
	flag.Parse()
	logrus.SetOutput(io.Discard)
	vx.Registry["transport"] = scenario
	if *worker {
		vx.WorkerMain()
		return
	}
	if *freeProg != "" {
		if vrt.Active() {
			panic("free run inside the scheduler")
		}
		reapAfter, hsTimeout, acceptWait, setupAccept = 700*time.Millisecond, 400*time.Millisecond, 500*time.Millisecond, 2*time.Second
		for k := 0; k < *freeRuns; k++ {
			scenario(*freeProg).Run()
		}
		return
	}
	if *racePass {
		racePassMain()
		return
	}
	r := vk.New("C17", "model_checking")
	if a := os.Getenv("VERIF_EXPLORE"); a != "" {
		e := &vx.Explorer{Bounds: vx.Bounds{2, 2, 2, 1, 0}, Total: 2, MaxExec: 1000000}
		st := e.ExploreLocal(scenario(a), nil)
		fmt.Printf("explored %d executions, outcomes:\n", st.Executions)
		for o, n := range st.Outcomes {
			fmt.Printf("  %6d  %s\n", n, o)
		}
		for _, pr := range st.Problems {
			fmt.Println("  PROBLEM:", pr.What)
		}
		r.Finish()
	}
	if a := os.Getenv("VERIF_PROG"); a != "" {
		sc := scenario(a)
		sc.Cfg.Trace = os.Getenv("VERIF_TRACE") != ""
		res := vrt.Run(sc.Cfg, nil, sc.Run)
		fmt.Printf("program %s: points=%d steps=%d threads=%d vtime=%v outcome=%s deadlock=%q panics=%v failures=%v leaked=%v horizon=%q\n", a, len(res.Points), res.Steps, res.Threads, res.EndTime, res.Outcome, res.Deadlock, res.Panics, res.Failures, res.Leaked, res.Horizon)
		for _, l := range res.Log {
			fmt.Println("  ", l)
		}
		r.Finish()
	}
	if r.ReplayFile != "" {
		var rc struct {
			Arg     string `json:"arg"`
			Choices []int  `json:"choices"`
		}
		if err := r.LoadReplay(&rc); err != nil {
			r.EngineError("replay: %v", err)
			r.Finish()
		}
		sc := scenario(rc.Arg)
		sc.Cfg.Trace = os.Getenv("VERIF_TRACE") != ""
		ps, stable, res := vx.Replay(sc, rc.Choices)
		for _, l := range res.Log {
			fmt.Println("  ", l)
		}
		fmt.Println("stable:", stable, "outcome:", res.Outcome)
		for _, p := range ps {
			r.Violation("replayed:"+classify(p), p, rc)
		}
		r.Finish()
	}
	all, core := programs(r.Thorough())
	type phase struct {
		name   string
		progs  []prog
		bounds vx.Bounds
		total  int
		window int
	}
	phases := []phase{{"all programs, one deviation of any kind", all, vx.Bounds{1, 1, 1, 1, 0}, 1, 0}, {"core programs, two deviations anywhere", core, vx.Bounds{2, 2, 2, 1, 0}, 2, 0}}
	if r.Thorough() {
		phases = []phase{{"all programs, two deviations among the first 400 choice points", all, vx.Bounds{2, 2, 2, 1, 0}, 2, 400}, {"core programs, three deviations among the first 80 choice points", core, vx.Bounds{3, 3, 3, 1, 0}, 3, 80}}
	}
	var execs, points int64
	traces := 0
	outcomes := 0
	for _, ph := range phases {
		e := &vx.Explorer{Bounds: ph.bounds, Total: ph.total, Window: ph.window, MaxExec: 2000000, Deadline: r.Deadline}
		var phExec int64
		for i, p := range ph.progs {
			if r.Expired() {
				r.Cap(fmt.Sprintf("budget expired in phase %q after %d of %d programs", ph.name, i, len(ph.progs)))
				break
			}
			st := e.Explore("transport", p.String(), r.Workers)
			execs += st.Executions
			phExec += st.Executions
			points += st.Points
			traces += st.NTraces
			outcomes += len(st.Outcomes)
			if st.Capped {
				r.Cap("execution cap / budget hit for program " + p.String())
			}
			if st.Horizons > 0 {
				r.AddInt("executions_hitting_horizon", st.Horizons)
			}
			r.Distinct(ph.name + p.String())
			for _, pr := range st.Problems {
				if strings.HasPrefix(pr.What, "ENGINE:") {
					r.EngineError("%s: %s", p, pr.What)
					continue
				}
				ps, stable, _ := vx.Replay(scenario(p.String()), pr.Choices)
				if !stable || len(ps) == 0 {
					r.EngineError("violation did not reproduce deterministically for %s: %s", p, pr.What)
					continue
				}
				r.Violation("transport:"+classify(pr.What)+":"+p.String(), fmt.Sprintf("%s | program: %s | bounds %v | schedule: %d choices", pr.What, p, ph.bounds, len(pr.Choices)), map[string]any{"arg": p.String(), "choices": pr.Choices})
			}
			if os.Getenv("VERIF_VERBOSE") != "" {
				fmt.Printf("phase %q prog %s exec=%d maxpoints=%d problems=%d outcomes=%d\n", ph.name, p, st.Executions, st.MaxPoints, len(st.Problems), len(st.Outcomes))
			}
		}
		r.SampleForce(map[string]any{"part": "transport", "phase": ph.name, "programs": len(ph.progs), "bounds": ph.bounds.String(), "total_deviations": ph.total, "deviation_window": ph.window, "executions": phExec})
	}
	r.EvalN(execs)
	r.Graph(int64(traces), points, execs)
	r.Set("transport_programs", len(all))
	r.Set("transport_distinct_outcomes", outcomes)
	r.SetRule("transport part: a real transport client and server (packages transport and common rewritten for the deterministic scheduler and virtual clock) over an in-memory datagram network; programs of 1..3 client threads and 0..2 server-handle threads over {Handshake, Close, Read, Read with a 50 ms deadline, Write, SetReadDeadline(+30 ms / zero)}, optionally a thread closing the server; a reaper closes both ends after 60 virtual seconds so that reads nobody else releases end; starting from a fresh client (discoverable and hidden mode), from an open session, or from an open session with one message already queued at the client; every schedule within the phase's deviation bounds. Oracles: no deadlock, nothing still running at 10 virtual minutes, no panic, no thread left 30 virtual seconds after everything was closed (every call returns), Close reports the same result to every caller of the same object (including a later call), Read/Write on a closed client fail, a message queued before any Close began is returned by the first Read.")
	r.Finish()
}
