// C07 — a delegate session can do only what its grants allow, once, and in time.
// L1: explicit-state BFS at handler level on a real HopServer: AddAuthGrant / Login / Request /
// Tick, against a reference of stored, unconsumed, effective grants.
package main

import (
	"fmt"
	"sort"
	"strings"
	"sync"
	"time"

	"github.com/AstromechZA/etcpwdparse"

	"hop.computer/hop/authgrants"
	"hop.computer/hop/authkeys"
	"hop.computer/hop/certs"
	"hop.computer/hop/config"
	"hop.computer/hop/hopserver"
	"hop.computer/hop/keys"
	"hop.computer/hop/pkg/thunks"
	"hop.computer/hop/zzverif/seqx"
	"hop.computer/hop/zzverif/vk"
)

const T = int64(2_000_000_000)

var winNames = []string{"past", "current", "future", "instant"}
var windows = [][2]int64{{T - 200, T - 100}, {T - 100, T + 100}, {T + 100, T + 200}, {T, T}}
var clocks = []int64{T - 101, T - 100, T - 1, T, T + 1, T + 99, T + 100, T + 101, T + 199, T + 200}
var gtypes = []struct {
	name string
	t    authgrants.GrantType
	cmd  string
}{{"shell", authgrants.Shell, ""}, {"cmd-a", authgrants.Command, "a"}, {"cmd-b", authgrants.Command, "b"}}
var principals = [][2]int{{0, 1}, {0, 2}, {1, 1}} // (user index, key index)
var users = []string{"u1", "u2"}
var reqs = []struct {
	cmd string
	pty bool
}{{"", true}, {"a", false}, {"b", false}, {"a ", false}, {"", false}, {"a", true}}

type ev struct {
	K string `json:"k"` // add | login | req | tick
	A int    `json:"a"`
	B int    `json:"b"`
	C int    `json:"c"`
}

func (e ev) String() string {
	switch e.K {
	case "add":
		return fmt.Sprintf("add(%s,%s,%s/k%d)", gtypes[e.A].name, winNames[e.B], users[principals[e.C][0]], principals[e.C][1])
	case "login":
		return fmt.Sprintf("login(%s/k%d)", users[principals[e.A][0]], principals[e.A][1])
	case "req":
		return fmt.Sprintf("req(s%d,%q,pty=%v)", e.A, reqs[e.B].cmd, reqs[e.B].pty)
	}
	return fmt.Sprintf("tick(%+d)", clocks[e.A]-T)
}

var K [3]keys.DHPublicKey
var leaf [3]certs.Certificate

var clockMu sync.Mutex
var clockOf = map[uint64]int64{} // goroutine-less: one clock per executing path, selected by a token

// The clock thunk is global while paths execute in parallel: the only reader is the gate, so the
// (tiny) call into it is serialised and the clock set just before it.
var gateMu sync.Mutex
var gateNow int64 = T

func thunkNow() time.Time { return time.Unix(gateNow, 0) }

// atClock runs one call into the server with the path's clock installed.
func atClock(now int64, fn func()) string {
	gateMu.Lock()
	defer gateMu.Unlock()
	gateNow = now
	return vk.Try(fn)
}

type rgrant struct {
	t        int
	from, to int64
	consumed bool
}

func exec(path []ev) seqx.Step {
	now := T
	sock := "/nonexistent/sock"
	s, _ := hopserver.NewHopServerExt(nil, &config.ServerConfig{EnableAuthgrants: true, AgProxyListenSocket: &sock}, authkeys.NewSyncAuthKeySet())
	stored := map[int][]*rgrant{} // principal index -> live (not yet handed out) grants
	type sess struct {
		v      *hopserver.VerifSession
		grants []*rgrant
	}
	var sessions []*sess
	for i, e := range path {
		switch e.K {
		case "tick":
			now = clocks[e.A]
		case "add":
			p := principals[e.C]
			in := &authgrants.Intent{GrantType: gtypes[e.A].t, TargetUsername: users[p[0]], DelegateCert: leaf[p[1]],
				StartTime: time.Unix(windows[e.B][0], 0), ExpTime: time.Unix(windows[e.B][1], 0)}
			in.AssociatedData.CommandGrantData.Cmd = gtypes[e.A].cmd
			var err error
			if pn := atClock(now, func() { err = s.AddAuthGrant(in) }); pn != "" {
				return seqx.Step{Bad: fmt.Sprintf("step %d %v panics: %s", i, e, pn)}
			}
			if err != nil {
				return seqx.Step{Bad: fmt.Sprintf("step %d %v: AddAuthGrant failed: %v", i, e, err)}
			}
			stored[e.C] = append(stored[e.C], &rgrant{t: e.A, from: windows[e.B][0], to: windows[e.B][1]})
		case "login":
			if len(sessions) >= 2 {
				return seqx.Step{Stop: true, Key: "cap"}
			}
			p := principals[e.A]
			var acts []authgrants.Authgrant
			var err error
			if pn := atClock(now, func() { acts, err = s.AuthorizeKeyAuthGrant(users[p[0]], K[p[1]]) }); pn != "" {
				return seqx.Step{Bad: fmt.Sprintf("step %d %v panics: %s", i, e, pn)}
			}
			want := stored[e.A]
			if err == nil && len(want) == 0 {
				return seqx.Step{Bad: fmt.Sprintf("step %d %v: grant login admitted but the reference holds no stored grant for exactly this user and key", i, e)}
			}
			live := 0
			for _, g := range want {
				if now < g.to {
					live++
				}
			}
			if err != nil && live > 0 {
				return seqx.Step{Bad: fmt.Sprintf("step %d %v: grant login refused although %d unexpired grants are stored for this user and key (liveness)", i, e, live)}
			}
			if err != nil {
				continue
			}
			// what the session was handed must be a sub-multiset of what was stored; anything
			// withheld must already have expired (the clock only moves forward)
			var handed []*rgrant
			used := map[*rgrant]bool{}
			for _, a := range acts {
				var m *rgrant
				for _, g := range want {
					gt := gtypes[g.t]
					if !used[g] && gt.t == a.GrantType && gt.cmd == a.AssociatedData.CommandGrantData.Cmd && g.from == a.StartTime.Unix() && g.to == a.ExpTime.Unix() {
						m = g
						break
					}
				}
				if m == nil {
					return seqx.Step{Bad: fmt.Sprintf("step %d %v: the session was handed a grant (type %d, cmd %q, window %d..%d) that is not among the unconsumed grants stored for this user and key (handed %d, stored %d)", i, e, a.GrantType, a.AssociatedData.CommandGrantData.Cmd, a.StartTime.Unix()-T, a.ExpTime.Unix()-T, len(acts), len(want))}
				}
				used[m] = true
				handed = append(handed, m)
			}
			for _, g := range want {
				if !used[g] && now < g.to {
					return seqx.Step{Bad: fmt.Sprintf("step %d %v: an unexpired stored grant was not handed to the session (liveness)", i, e)}
				}
			}
			sessions = append(sessions, &sess{v: s.VerifNewSession(users[p[0]], true, acts), grants: handed})
			stored[e.A] = nil // grants disappear from the server once handed to a session
		case "req":
			if e.A >= len(sessions) {
				return seqx.Step{Stop: true, Key: "nosession"}
			}
			se := sessions[e.A]
			rq := reqs[e.B]
			var match *rgrant
			for _, g := range se.grants {
				if g.consumed || !(g.from <= now && now < g.to) {
					continue
				}
				gt := gtypes[g.t]
				if (gt.t == authgrants.Shell && rq.pty) || (gt.t == authgrants.Command && !rq.pty && gt.cmd == rq.cmd) {
					match = g
					break
				}
			}
			var err error
			if pn := atClock(now, func() { err = se.v.CheckCmd(rq.cmd, rq.pty) }); pn != "" {
				return seqx.Step{Bad: fmt.Sprintf("step %d %v panics: %s", i, e, pn)}
			}
			if err == nil && match == nil {
				why := "no grant of this session matches"
				reasons := map[string]bool{}
				for _, g := range se.grants {
					gt := gtypes[g.t]
					m := (gt.t == authgrants.Shell && rq.pty) || (gt.t == authgrants.Command && !rq.pty && gt.cmd == rq.cmd)
					switch {
					case m && g.consumed:
						reasons["already used"] = true
					case m && now < g.from:
						reasons["not yet effective"] = true
					case m && now >= g.to:
						reasons["has expired"] = true
					}
				}
				if len(reasons) > 0 {
					var rs []string
					for k := range reasons {
						rs = append(rs, k)
					}
					sort.Strings(rs)
					why = "every matching grant of the session is one of: " + strings.Join(rs, " / ")
				}
				return seqx.Step{Bad: fmt.Sprintf("step %d %v at clock T%+d: the action was allowed although %s", i, e, now-T, why)}
			}
			if err != nil && match != nil {
				return seqx.Step{Bad: fmt.Sprintf("step %d %v at clock T%+d: refused although an unused, effective grant matches (liveness)", i, e, now-T)}
			}
			if match != nil {
				match.consumed = true
			}
		}
	}
	// canonical key: implementation grant state + sessions' remaining actions + clock + reference
	var rk []string
	for p, gs := range stored {
		for _, g := range gs {
			rk = append(rk, fmt.Sprintf("p%d:%d:%d", p, g.t, g.from))
		}
	}
	for si, se := range sessions {
		for _, g := range se.grants {
			rk = append(rk, fmt.Sprintf("s%d:%d:%d:%v", si, g.t, g.from, g.consumed))
		}
		rk = append(rk, fmt.Sprintf("s%d-actions=%d", si, se.v.Actions()))
	}
	sort.Strings(rk)
	return seqx.Step{Key: fmt.Sprintf("%s|clock=%d|%s", s.VerifGrantState(), now-T, strings.Join(rk, ","))}
}

func main() {
	r := vk.New("C07", "model_checking")
	for i := 1; i <= 2; i++ {
		for j := range K[i] {
			K[i][j] = byte(i*60 + j)
		}
		c, _ := certs.SelfSignLeaf(&certs.Identity{PublicKey: K[i]})
		leaf[i] = *c
	}
	thunks.TimeNow = thunkNow
	thunks.LookupUser = func(u string) (*etcpwdparse.EtcPasswdEntry, error) { return nil, thunks.ErrUserNotFound }
	if r.ReplayFile != "" {
		var p []ev
		if err := r.LoadReplay(&p); err != nil {
			r.EngineError("replay: %v", err)
		} else if st := exec(p); st.Bad != "" {
			r.Violation("replayed", st.Bad, p)
		}
		r.Finish()
	}
	depth := 4
	if r.Thorough() {
		depth = 5
	}
	var alpha []ev
	for a := range gtypes {
		for b := range windows {
			for c := range principals {
				alpha = append(alpha, ev{K: "add", A: a, B: b, C: c})
			}
		}
	}
	for a := range principals {
		alpha = append(alpha, ev{K: "login", A: a})
	}
	for s := 0; s < 2; s++ {
		for b := range reqs {
			alpha = append(alpha, ev{K: "req", A: s, B: b})
		}
	}
	for a := range clocks {
		alpha = append(alpha, ev{K: "tick", A: a})
	}
	r.SetRule(fmt.Sprintf("explicit-state BFS to depth %d over %d events on a real HopServer with authgrants enabled: AddAuthGrant(type in {shell, cmd a, cmd b} x window in %v x (user,key) in 3 pairs), Login (grant path), Request(session, (cmd,pty) in 6 forms incl. trailing blank, empty, pty+cmd) through the gate startCodex applies (checkCmd), forward clock moves to 10 values around every window edge (thunks.TimeNow, installed for every call into the server); reference: an action starts iff a grant handed to that session at login is unused, matches type and exact command text, and start <= now < expiry, and is then consumed; grants leave the server at login. States deduplicated on (grant map, key set, sessions, clock, reference).", depth, len(alpha), winNames))
	b := &seqx.BFS[ev]{MaxDepth: depth, Workers: r.Workers, Expired: r.Expired,
		Alphabet: func(path []ev) []ev {
			// the clock only moves forward
			cur := T
			for _, e := range path {
				if e.K == "tick" {
					cur = clocks[e.A]
				}
			}
			var a []ev
			for _, e := range alpha {
				if e.K == "tick" && clocks[e.A] <= cur {
					continue
				}
				a = append(a, e)
			}
			return a
		},
		Exec: func(p []ev) seqx.Step {
			r.Eval()
			st := exec(p)
			if st.Bad == "" && !st.Stop {
				r.Distinct(st.Key)
			}
			return st
		},
		OnBad: func(path []ev, bad string) {
			var p []string
			for _, e := range path {
				p = append(p, e.String())
			}
			cls := "other"
			for _, c := range []string{"not yet effective", "has expired", "already used", "no grant of this session matches", "liveness", "was handed a grant", "login admitted", "panics"} {
				if strings.Contains(bad, c) {
					cls = strings.ReplaceAll(c, " ", "-")
					break
				}
			}
			r.Violation("l1:"+cls, bad+" | history: "+strings.Join(p, " "), path)
		}}
	st := b.Run()
	if st.Capped {
		r.Cap("budget expired during BFS")
	}
	r.Graph(st.States, st.Transitions, st.Transitions)
	r.Set("bfs_depth_completed", st.MaxDepth)
	r.Sample("add(cmd-a,current,u1/k1) login(u1/k1) req(s0,\"a\",pty=false) req(s0,\"a\",pty=false)")
	r.Assume("handler level: the gate is checkCmd as startCodex applies it to grant-admitted sessions; the dispatch of other tube kinds is checked by the L2 slice")
	r.Finish()
}
