#!/bin/sh
# Runs every thorough tier once, sequentially; one line per check in $1 (default /tmp/thorough.log).
log=${1:-/tmp/thorough.log}
cd /verif
for id in C14 C20 C18 C04 C12 C13 C01 C02 C19 C15 C03 C10 C05 C06 C07 C11 C17 C16 C08 C09; do
  t0=$(date +%s)
  timeout 5400 ./check $id thorough > /tmp/thorough-$id.out 2>&1
  rc=$?
  echo "$id rc=$rc wall=$(( $(date +%s) - t0 ))s $(grep -h '^SUMMARY' /tmp/thorough-$id.out | cut -c1-220)" >> $log
  grep -h '^VIOLATION\|^ENGINE' /tmp/thorough-$id.out | cut -c1-300 >> $log
done
echo ALLDONE >> $log
