// C19 — server stateless before a valid cookie; silent in hidden mode.
package main

import (
	"flag"
	"fmt"
	"net"
	"runtime"
	"strings"
	"sync"
	"time"

	"hop.computer/hop/transport"
	"hop.computer/hop/zzverif/fix"
	"hop.computer/hop/zzverif/simnet"
	"hop.computer/hop/zzverif/vk"
)

var seams = flag.String("seams", "", "source seams applied by the driver")

func hasSeam(n string) bool {
	for _, s := range strings.Split(*seams, ",") {
		if s == n {
			return true
		}
	}
	return false
}

// captureUntil starts a client and pumps until a datagram of type t is in flight; returns it
// (left in flight) and the client.
func captureUntil(w *fix.World, cfg transport.ClientConfig, addr, server *net.UDPAddr, t byte) (*fix.ClientEnd, []byte, error) {
	c := w.NewClient(cfg, addr, server)
	c.Start()
	ok, err := w.PumpUntil(nil, func(d *simnet.Datagram) bool { return d.Data[0] == t && d.Src.Port == addr.Port })
	if err != nil || !ok {
		return c, nil, fmt.Errorf("no datagram of type %d produced (%v)", t, err)
	}
	d := w.Net.Pop()
	data := append([]byte{}, d.Data...)
	w.Net.PushFront(d)
	return c, data, nil
}

// ---------- discoverable: statelessness ----------

func hellos(r *vk.Run, std *fix.Std) {
	for _, k := range []int{1, 10, 1000} {
		for _, nAddr := range []int{1, 10} {
			r.Eval()
			id := fmt.Sprintf("hello:k=%d,addrs=%d", k, nAddr)
			w := fix.NewWorld()
			srv, err := w.StartServer(std.ServerConfig(false), std.ServerAdr)
			if err != nil {
				r.EngineError("%v", err)
				return
			}
			// a handful of distinct genuine client hellos
			var chs [][]byte
			for i := 0; i < 3; i++ {
				_, ch, err := captureUntil(w, std.ClientConfig(false), simnet.Addr("10.1.0.1", 3000+i), std.ServerAdr, 1)
				if err != nil {
					r.EngineError("%v", err)
					return
				}
				w.Net.Pop()
				chs = append(chs, ch)
			}
			w.Net.WaitQuiescent()
			runtime.Gosched()
			g0 := runtime.NumGoroutine()
			replies := 0
			for i := 0; i < k; i++ {
				src := simnet.Addr(fmt.Sprintf("10.2.0.%d", 1+i%nAddr), 5000+i%nAddr)
				w.Net.Deliver(chs[i%len(chs)], src, std.ServerAdr)
				if err := w.Net.WaitQuiescent(); err != nil {
					r.EngineError("%v", err)
					return
				}
				for d := w.Net.Pop(); d != nil; d = w.Net.Pop() {
					if d.Data[0] == 2 {
						replies++
					}
				}
			}
			hs, ss, pend := srv.S.VerifCounts()
			if hs != 0 || ss != 0 || pend != 0 {
				r.Violation(id+":state", fmt.Sprintf("after %d client hellos from %d addresses the server holds per-client state: handshakes=%d sessions=%d pending=%d", k, nAddr, hs, ss, pend), nil)
			}
			if g1 := runtime.NumGoroutine(); g1 > g0 {
				r.Violation(id+":goroutines", fmt.Sprintf("after %d client hellos the goroutine count grew from %d to %d", k, g0, g1), nil)
			}
			if replies != k {
				r.Violation(id+":replies", fmt.Sprintf("%d client hellos drew %d server hellos (a discoverable server answers each)", k, replies), nil)
			}
			r.Distinct(id)
			w.Close()
		}
	}
}

// ---------- discoverable: cookie binding ----------

type cookieCase struct {
	IP, Port, Key, Rotated bool // changed?
	FlipByte               int  // -1 = none, else byte of the cookie to flip
	FlipBit                int  // which bit of that byte (0 = lowest)
	OtherServer            bool
	V6                     bool // the client lives on an IPv6 address
}

func (c cookieCase) String() string {
	return fmt.Sprintf("ip=%v,port=%v,kemkey=%v,rotated=%v,flip=%d.%d,otherserver=%v,v6=%v", c.IP, c.Port, c.Key, c.Rotated, c.FlipByte, c.FlipBit, c.OtherServer, c.V6)
}

const cookieOff = 4 + 32 + transport.KemKeyLen

func cookieRun(std *fix.Std, c cookieCase) (accepted bool, err error) {
	w := fix.NewWorld()
	defer w.Close()
	srv, err := w.StartServer(std.ServerConfig(false), std.ServerAdr)
	if err != nil {
		return false, err
	}
	home := simnet.Addr("10.0.0.2", 4000)
	if c.V6 {
		home = &net.UDPAddr{IP: net.ParseIP("2001:db8::2"), Port: 4000}
	}
	target := srv
	if c.OtherServer {
		// the ack (with a cookie minted by srv) is presented to a second server instance
		o, err := w.StartServer(std.ServerConfig(false), simnet.Addr("10.0.0.5", 77))
		if err != nil {
			return false, err
		}
		target = o
	}
	_, ack, err := captureUntil(w, std.ClientConfig(false), home, std.ServerAdr, 3)
	if err != nil {
		return false, err
	}
	w.Net.Pop()
	if c.Rotated {
		target.S.VerifRotateCookieKey()
	}
	src := &net.UDPAddr{IP: home.IP, Port: home.Port}
	if c.IP {
		src.IP = net.ParseIP("10.0.0.99").To4()
		if c.V6 {
			src.IP = net.ParseIP("2001:db8::99")
		}
	}
	if c.Port {
		src.Port = 4999
	}
	if c.Key {
		ack[4+32+17] ^= 0x04 // a byte of the client KEM key repeated in the ack
	}
	if c.FlipByte >= 0 {
		ack[cookieOff+c.FlipByte] ^= 1 << uint(c.FlipBit)
	}
	before := w.Net.LogLen()
	w.Net.Deliver(ack, src, target.Addr)
	if err := w.Net.WaitQuiescent(); err != nil {
		return false, err
	}
	hs, ss, _ := target.S.VerifCounts()
	sentAuth := false
	for _, d := range w.Net.LogSince(before) {
		if d.Src.Port == target.Addr.Port && d.Src.IP.Equal(target.Addr.IP) && d.Data[0] == 4 {
			sentAuth = true
		}
	}
	return hs > 0 || ss > 0 || sentAuth, nil
}

// cookieOtherKey: an adversarial client (transport.VerifCookieProbe) obtains a cookie with its
// own client KEM key A and presents it, from the same address, in an ack that names key B = A
// with the bytes [off, off+n) changed and carries a MAC that is correct for B's transcript (the
// client knows the shared secret). Returns whether the server accepted the ack.
func cookieOtherKey(std *fix.Std, off, n int, v6 bool) (accepted bool, err error) {
	w := fix.NewWorld()
	defer w.Close()
	srv, err := w.StartServer(std.ServerConfig(false), std.ServerAdr)
	if err != nil {
		return false, err
	}
	src := simnet.Addr("10.0.0.2", 4000)
	if v6 {
		src = &net.UDPAddr{IP: net.ParseIP("2001:db8::2"), Port: 4000}
	}
	probe, hello, err := transport.VerifNewCookieProbe()
	if err != nil {
		return false, err
	}
	before := w.Net.LogLen()
	w.Net.Deliver(hello, src, srv.Addr)
	if err := w.Net.WaitQuiescent(); err != nil {
		return false, err
	}
	var sh []byte
	for _, d := range w.Net.LogSince(before) {
		if d.Src.Port == srv.Addr.Port && d.Data[0] == 2 {
			sh = append([]byte{}, d.Data...)
		}
	}
	if sh == nil {
		return false, fmt.Errorf("no server hello for the probe's client hello")
	}
	for w.Net.Pop() != nil {
	}
	var mutate func([]byte)
	if n > 0 {
		mutate = func(raw []byte) {
			if off < 0 {
				off += len(raw)
			}
			for i := off; i < off+n && i < len(raw); i++ {
				raw[i] ^= 0xA5
			}
		}
	}
	ack, err := probe.Ack(sh, mutate)
	if err != nil {
		return false, fmt.Errorf("building the ack: %v", err)
	}
	before = w.Net.LogLen()
	w.Net.Deliver(ack, src, srv.Addr)
	if err := w.Net.WaitQuiescent(); err != nil {
		return false, err
	}
	hs, ss, _ := srv.S.VerifCounts()
	sentAuth := false
	for _, d := range w.Net.LogSince(before) {
		if d.Src.Port == srv.Addr.Port && d.Src.IP.Equal(srv.Addr.IP) && d.Data[0] == 4 {
			sentAuth = true
		}
	}
	return hs > 0 || ss > 0 || sentAuth, nil
}

func cookies(r *vk.Run, std *fix.Std) {
	// cookie presented with another client key by a client that can compute the MAC
	type ok struct{ off, n int }
	oks := []ok{{0, 0}, {0, 1}, {31, 1}, {32, 1}, {33, 1}, {64, 1}, {transport.KemKeyLen / 2, 1}, {-33, 1}, {-32, 1}, {-8, 8}, {-1, 1}}
	if r.Thorough() {
		oks = oks[:1]
		for off := 0; off < transport.KemKeyLen; off++ {
			oks = append(oks, ok{off, 1})
		}
	}
	r.Parallel(len(oks)*2, func(i int) {
		c, v6 := oks[i/2], i%2 == 1
		r.Eval()
		acc, err := cookieOtherKey(std, c.off, c.n, v6)
		id := fmt.Sprintf("cookie:other-client-key:off=%d,n=%d,v6=%v", c.off, c.n, v6)
		if err != nil {
			// a changed byte can make the key bytes unparseable as a KEM key: not a case
			if c.n > 0 && strings.Contains(err.Error(), "building the ack") {
				r.AddInt("cookie_other_key_variants_unparseable", 1)
				return
			}
			r.EngineError("%s: %v", id, err)
			return
		}
		if c.n == 0 && !acc {
			r.Violation("cookie:other-client-key:liveness", "the probe's honest ack (its own key, the server's fresh cookie, same address) was rejected", id)
		}
		if c.n > 0 && acc {
			r.Violation("cookie:other-client-key", fmt.Sprintf("client ack accepted although it names a client KEM key other than the one the cookie was minted for (bytes [%d,%d) of the key changed, MAC recomputed by the client, same address; negative offsets count from the end)", c.off, c.off+c.n), id)
		}
		r.Distinct(id)
	})
	var cases []cookieCase
	for m := 0; m < 16; m++ {
		for _, v6 := range []bool{false, true} {
			cases = append(cases, cookieCase{IP: m&1 != 0, Port: m&2 != 0, Key: m&4 != 0, Rotated: m&8 != 0, FlipByte: -1, V6: v6})
		}
	}
	for b := 0; b < transport.PQCookieLen; b++ {
		cases = append(cases, cookieCase{FlipByte: b})
		if r.Thorough() { // every bit, and both client address families
			for bit := 1; bit < 8; bit++ {
				cases = append(cases, cookieCase{FlipByte: b, FlipBit: bit})
			}
			for bit := 0; bit < 8; bit += 7 {
				cases = append(cases, cookieCase{FlipByte: b, FlipBit: bit, V6: true})
			}
		}
	}
	cases = append(cases, cookieCase{FlipByte: -1, OtherServer: true})
	r.Parallel(len(cases), func(i int) {
		c := cases[i]
		r.Eval()
		acc, err := cookieRun(std, c)
		if err != nil {
			r.EngineError("cookie %v: %v", c, err)
			return
		}
		want := !c.IP && !c.Port && !c.Key && !c.Rotated && c.FlipByte < 0 && !c.OtherServer
		id := "cookie:" + c.String()
		if c.FlipByte >= 0 {
			id = "cookie:flipped-byte"
		}
		if acc && !want {
			r.Violation(id, fmt.Sprintf("client ack accepted (handshake state created / server auth sent) although the cookie was not minted by this server under its current key for this address and client key: %v", c), c)
		}
		if !acc && want {
			r.Violation(id+":liveness", "the unmodified client ack with the server's own fresh cookie was rejected", c)
		}
		r.Distinct("cookie:" + c.String())
	})
	r.Set("cookie_cases", len(cases))
}

// ---------- hidden: silence ----------

type stim struct {
	Name string
	Data []byte
	Src  *net.UDPAddr
	// Fresh: a fresh well-formed request for this server: exactly one reply expected.
	Fresh bool
	// Unjudged: reply allowed but not required (a replay inside the freshness window).
	Unjudged bool
}

var hiddenFields = []struct {
	name string
	n    int
}{{"header", 4}, {"kem-key", transport.KemKeyLen}, {"kem-ct", transport.KemCtLen}, {"certs", -1}, {"cert-tag", 16}, {"timestamp", 8}, {"final-mac", 16}}

func hidden(r *vk.Run, std *fix.Std) {
	var clockMu sync.Mutex
	clockOffset := int64(0)
	absClock := uint64(0)
	useAbs := false
	if hasSeam("client-clock") {
		transport.VerifClientNow = func() int64 {
			clockMu.Lock()
			defer clockMu.Unlock()
			if useAbs {
				return int64(absClock)
			}
			return time.Now().Unix() + clockOffset
		}
	}
	home := simnet.Addr("10.0.0.2", 4000)
	other := simnet.Addr("10.0.0.66", 4666)
	// captured discoverable-mode traffic (against a non-hidden twin of the server)
	var disc [][]byte
	{
		w := fix.NewWorld()
		w.StartServer(std.ServerConfig(false), std.ServerAdr)
		c := w.NewClient(std.ClientConfig(false), home, std.ServerAdr)
		c.Start()
		w.Pump(func(ord int, d *simnet.Datagram) []*simnet.Datagram {
			if d.Src.Port == home.Port {
				disc = append(disc, append([]byte{}, d.Data...))
			}
			return nil
		})
		c.C.WriteMsg([]byte("data"))
		if d := w.Net.Pop(); d != nil {
			disc = append(disc, d.Data)
		}
		w.Close()
	}
	mkReq := func(w *fix.World, cfg transport.ClientConfig, port int) ([]byte, error) {
		_, req, err := captureUntil(w, cfg, simnet.Addr("10.0.0.2", port), std.ServerAdr, 8)
		if err == nil {
			w.Net.Pop()
		}
		return req, err
	}
	type tcase struct {
		name  string
		build func(w *fix.World) ([]stim, error)
	}
	var cases []tcase
	add := func(name string, b func(w *fix.World) ([]stim, error)) { cases = append(cases, tcase{name, b}) }
	add("fresh-request", func(w *fix.World) ([]stim, error) {
		req, err := mkReq(w, std.ClientConfig(true), 4000)
		return []stim{{Name: "fresh", Data: req, Src: home, Fresh: true}}, err
	})
	add("discoverable-messages", func(w *fix.World) ([]stim, error) {
		var s []stim
		for i, d := range disc {
			s = append(s, stim{Name: fmt.Sprintf("discoverable-type-%02x#%d", d[0], i), Data: d, Src: home})
		}
		return s, nil
	})
	add("raw-junk", func(w *fix.World) ([]stim, error) {
		var s []stim
		for _, l := range []int{0, 1, 3, 4, 5, 8, 47, 48, 100, 1472, 2000} {
			for _, first := range []byte{0, 1, 2, 3, 4, 5, 8, 9, 0x10, 0x80, 0xff} {
				b := make([]byte, l)
				if l > 0 {
					b[0] = first
				}
				if l > 1 {
					b[1] = 1 // version
				}
				s = append(s, stim{Name: fmt.Sprintf("raw-len=%d-type=%02x", l, first), Data: b, Src: home})
			}
		}
		return s, nil
	})
	add("wrong-kem-key", func(w *fix.World) ([]stim, error) {
		cfg := std.ClientConfig(true)
		pk := fix.NewKEM().Public
		cfg.ServerKEMKey = &pk
		req, err := mkReq(w, cfg, 4000)
		return []stim{{Name: "request-for-another-servers-kem-key", Data: req, Src: home}}, err
	})
	add("altered-requests", func(w *fix.World) ([]stim, error) {
		req, err := mkReq(w, std.ClientConfig(true), 4000)
		if err != nil {
			return nil, err
		}
		var s []stim
		pos := 0
		certLen := len(req) - 4 - transport.KemKeyLen - transport.KemCtLen - 16 - 8 - 16
		for _, f := range hiddenFields {
			n := f.n
			if n < 0 {
				n = certLen
			}
			for _, off := range []int{pos, pos + n/2, pos + n - 1} {
				for _, mask := range []byte{0x01, 0x80} {
					b := append([]byte{}, req...)
					b[off] ^= mask
					s = append(s, stim{Name: "flip-" + f.name, Data: b, Src: home})
				}
			}
			s = append(s, stim{Name: "trunc-before-" + f.name, Data: req[:pos], Src: home}, stim{Name: "trunc-inside-" + f.name, Data: req[:pos+n-1], Src: home})
			pos += n
		}
		for _, e := range []int{1, 16, 100} {
			s = append(s, stim{Name: fmt.Sprintf("trailing-%d-bytes", e), Data: append(append([]byte{}, req...), make([]byte, e)...), Src: home})
		}
		// the same request again, and from another address: inside the freshness window a
		// replay is indistinguishable from the original (one-round-trip mode): not judged
		s = append(s, stim{Name: "fresh-first", Data: req, Src: home, Fresh: true},
			stim{Name: "replay-same-address", Data: req, Src: home, Unjudged: true},
			stim{Name: "replay-other-address", Data: req, Src: other, Unjudged: true})
		return s, nil
	})
	if hasSeam("client-clock") {
		type ts struct {
			name  string
			off   int64
			abs   uint64
			isAbs bool
			fresh bool
		}
		now := uint64(time.Now().Unix())
		tss := []ts{{"now-3", -3, 0, false, true}, {"now-8", -8, 0, false, false}, {"now-60", -60, 0, false, false}, {"now-1day", -86400, 0, false, false},
			{"now+30", 30, 0, false, false}, {"now+1day", 86400, 0, false, false},
			{"zero", 0, 0, true, false}, {"2^31", 0, 1 << 31, true, false}, {"2^63-1", 0, 1<<63 - 1, true, false}, {"2^63", 0, 1 << 63, true, false},
			{"2^63+now", 0, 1<<63 + now, true, false}, {"2^63+now-3", 0, 1<<63 + now - 3, true, false}, {"2^64-1", 0, ^uint64(0), true, false}, {"2^64-3", 0, ^uint64(0) - 2, true, false}}
		for _, t := range tss {
			t := t
			add("timestamp-"+t.name, func(w *fix.World) ([]stim, error) {
				clockMu.Lock()
				clockOffset, absClock, useAbs = t.off, t.abs, t.isAbs
				if t.isAbs && strings.HasPrefix(t.name, "2^63+now") {
					absClock = 1<<63 + uint64(time.Now().Unix())
					if strings.HasSuffix(t.name, "-3") {
						absClock -= 3
					}
				}
				clockMu.Unlock()
				req, err := mkReq(w, std.ClientConfig(true), 4000)
				clockMu.Lock()
				clockOffset, useAbs = 0, false
				clockMu.Unlock()
				return []stim{{Name: "timestamp-" + t.name, Data: req, Src: home, Fresh: t.fresh}}, err
			})
		}
	} else {
		r.Cap("client-clock seam did not apply to transport/handshake_pq.go: timestamp cases skipped")
	}
	if r.Thorough() {
		add("stale-by-waiting", func(w *fix.World) ([]stim, error) {
			req, err := mkReq(w, std.ClientConfig(true), 4000)
			time.Sleep(7 * time.Second)
			return []stim{{Name: "request-held-7s", Data: req, Src: home}}, err
		})
	}
	// timestamp cases share the clock seam: run those sequentially, the rest in parallel
	runCase := func(tc tcase) {
		for _, hiddenOnly := range []bool{true} {
			w := fix.NewWorld()
			srv, err := w.StartServer(std.ServerConfig(hiddenOnly), std.ServerAdr)
			if err != nil {
				r.EngineError("%v", err)
				return
			}
			stims, err := tc.build(w)
			if err != nil {
				r.EngineError("hidden case %s: %v", tc.name, err)
				w.Close()
				return
			}
			for _, s := range stims {
				r.Eval()
				before := w.Net.LogLen()
				w.Net.Deliver(s.Data, s.Src, std.ServerAdr)
				if err := w.Net.WaitQuiescent(); err != nil {
					r.EngineError("%v", err)
					break
				}
				var fromServer []*simnet.Datagram
				for _, d := range w.Net.LogSince(before) {
					if d.Src.Port == srv.Addr.Port && d.Src.IP.Equal(srv.Addr.IP) {
						fromServer = append(fromServer, d)
					}
				}
				for d := w.Net.Pop(); d != nil; d = w.Net.Pop() {
				}
				id := "hidden:" + s.Name
				switch {
				case s.Unjudged:
					r.AddInt("hidden_replays_inside_window_answered", int64(len(fromServer)))
				case s.Fresh && len(fromServer) != 1:
					r.Violation(id+":liveness", fmt.Sprintf("a fresh well-formed hidden request drew %d datagrams from the server (exactly one expected)", len(fromServer)), s.Name)
				case !s.Fresh && len(fromServer) != 0:
					r.Violation(id, fmt.Sprintf("hidden-mode server sent %d datagram(s) (first of length %d, type byte %s) in response to: %s", len(fromServer), len(fromServer[0].Data), tb(fromServer[0].Data), s.Name), s.Name)
				}
				r.Distinct(id)
			}
			w.Close()
		}
	}
	var par, seq []tcase
	for _, tc := range cases {
		if strings.HasPrefix(tc.name, "timestamp-") {
			seq = append(seq, tc)
		} else {
			par = append(par, tc)
		}
	}
	for _, tc := range seq {
		runCase(tc)
	}
	r.Parallel(len(par), func(i int) { runCase(par[i]) })
	r.Set("hidden_stimulus_groups", len(cases))
	r.Set("client_clock_seam", hasSeam("client-clock"))
}

func tb(b []byte) string {
	if len(b) == 0 {
		return "none (empty datagram)"
	}
	return fmt.Sprintf("0x%02x", b[0])
}

func main() {
	r := vk.New("C19", "fault_enumeration")
	std := fix.NewStd()
	r.SetRule("discoverable: k in {1,10,1000} genuine client hellos from {1,10} addresses -> handshake/session/pending tables empty, goroutine count unchanged, one reply each; client ack accepted iff cookie minted by this server under its current key for the same IP, port and client KEM key: all 2^4 changed/unchanged combinations for an IPv4 and for an IPv6 client (key rotation through the rotation step itself), every single cookie byte flipped (thorough: every bit, and two bits per byte for the IPv6 client), ack presented to another server instance; and an adversarial client that holds a cookie for its own KEM key A presents it from the same address in an ack naming key B = A with one byte changed at offsets 0, 31, 32, 33, 64, middle, -33, -32, -1 or the last 8 bytes changed (thorough: every byte offset of the key), with the MAC recomputed for B's transcript, so that only the cookie's binding to the key can refuse it. Hidden (IsHidden server): every captured discoverable-mode message, raw junk (11 lengths x 11 type bytes), request under another KEM key, hidden request with two bit flips at start/middle/end of each of its 7 fields, truncation before and inside each field, trailing bytes, and (through a check-time clock seam in the client's request writer) timestamps now-3 (fresh) / now-8 / now-60 / -1 day / +30 s / +1 day / 0 / 2^31 / 2^63-1 / 2^63 / 2^63+now / 2^63+now-3 / 2^64-3 / 2^64-1; thorough also holds a request for 7 real seconds. Oracle: zero datagrams from the server for everything but a fresh well-formed request, exactly one for that. distinct_nontrivial = distinct stimulus classes.")
	hellos(r, std)
	cookies(r, std)
	hidden(r, std)
	r.Assume("a replay of a genuine request inside the 5 s freshness window is not distinguishable from the original in a one-round-trip mode and is not judged (counted in hidden_replays_inside_window_answered)")
	r.Finish()
}
