// C01 — a handshake completes only with a peer that proved its certified key.
// One execution = one real handshake between an honest party and a configured counterpart
// (built from the project's own client/server code with mismatching configuration), in both
// modes and both directions, under every verification policy; thorough adds single wire faults.
package main

import (
	"bytes"
	"fmt"
	"time"

	"hop.computer/hop/authkeys"
	"hop.computer/hop/certs"
	"hop.computer/hop/keys"
	"hop.computer/hop/transport"
	"hop.computer/hop/zzverif/fix"
	"hop.computer/hop/zzverif/simnet"
	"hop.computer/hop/zzverif/vk"
)

// ---- the certificate a counterpart presents, with construction metadata ----

type ident struct {
	Kind        string
	Leaf, Inter *certs.Certificate  // what is presented
	Key         *keys.X25519KeyPair // the private key the counterpart actually uses
	HoldsKey    bool                // Key is the key named in Leaf
	ChainOK     bool                // chain valid (type, signatures, validity at the verifier's clock) under the CA store
	NameOK      bool                // leaf carries the expected name (servers only)
	LeafFormat  bool                // leaf is of Leaf type (authorized-keys policy needs only that + name + key)
	CertKey     keys.DHPublicKey    // key named in the certificate
}

type env struct {
	ca, other *fix.PKI
	victim    *keys.X25519KeyPair // the key pair of the legitimate party being impersonated
	kem       *keys.KEMKeyPair
	name      certs.Name
	now       time.Time // verifier clock
}

func newEnv() *env {
	return &env{ca: fix.NewPKI("ca"), other: fix.NewPKI("evil"), victim: keys.GenerateNewX25519KeyPair(), kem: fix.NewKEM(),
		name: certs.DNSName("srv.example"), now: time.Now().Add(10 * time.Minute)}
}

// idents enumerates counterpart identities. forServer: names matter.
func (e *env) idents(forServer bool) []ident {
	nm := []certs.Name{e.name}
	if !forServer {
		nm = []certs.Name{certs.RawStringName("client")}
	}
	v := e.victim
	own := keys.GenerateNewX25519KeyPair()
	var out []ident
	add := func(kind string, leaf, inter *certs.Certificate, key *keys.X25519KeyPair, chainOK, nameOK bool) {
		out = append(out, ident{Kind: kind, Leaf: leaf, Inter: inter, Key: key, HoldsKey: bytes.Equal(key.Public[:], leaf.PublicKey[:]),
			ChainOK: chainOK, NameOK: nameOK, LeafFormat: leaf.Type == certs.Leaf, CertKey: leaf.PublicKey})
	}
	good := e.ca.LeafFor(v.Public, nm...)
	add("honest", good, e.ca.Inter, v, true, true)
	add("valid-cert-other-key", good, e.ca.Inter, own, true, true)
	add("other-name", e.ca.LeafFor(v.Public, certs.DNSName("other.example")), e.ca.Inter, v, true, !forServer)
	// near misses of the expected DNS name: none of them is the name
	add("lookalike-name-long-s", e.ca.LeafFor(v.Public, certs.DNSName("\u017frv.example")), e.ca.Inter, v, true, !forServer) // U+017F folds to 's' under Unicode case folding
	add("name-with-suffix", e.ca.LeafFor(v.Public, certs.DNSName("srv.example.evil.example")), e.ca.Inter, v, true, !forServer)
	add("name-truncated", e.ca.LeafFor(v.Public, certs.DNSName("srv.exampl")), e.ca.Inter, v, true, !forServer)
	add("name-with-extra-label", e.ca.LeafFor(v.Public, certs.DNSName("a.srv.example")), e.ca.Inter, v, true, !forServer)
	add("raw-name-instead-of-dns", e.ca.LeafFor(v.Public, certs.RawStringName("srv.example")), e.ca.Inter, v, true, !forServer)
	add("expired", e.ca.LeafAt(v.Public, time.Now(), time.Minute, nm...), e.ca.Inter, v, false, true)                                // verifier clock is +10 min
	add("expires-exactly-now", e.ca.LeafAt(v.Public, time.Unix(e.now.Unix()-60, 0), time.Minute, nm...), e.ca.Inter, v, false, true) // ExpiresAt == now
	add("not-yet-valid", e.ca.LeafAt(v.Public, e.now.Add(time.Hour), time.Hour, nm...), e.ca.Inter, v, false, true)
	add("untrusted-root", e.other.LeafFor(v.Public, nm...), e.other.Inter, v, false, true)
	add("untrusted-chain-trusted-intermediate-presented", e.other.LeafFor(v.Public, nm...), e.ca.Inter, v, false, true)
	add("self-signed", fix.SelfSigned(v.Public, nm...), nil, v, false, true)
	add("self-signed-other-key", fix.SelfSigned(own.Public, nm...), nil, own, false, true)
	add("intermediate-omitted", good, nil, v, false, true)
	add("intermediate-as-leaf", e.ca.Inter, e.ca.Inter, v, false, false)
	add("root-as-leaf", e.ca.Root, nil, v, false, false)
	return out
}

type policy struct {
	Name string
	Make func(e *env, expectKey keys.DHPublicKey, forServer bool) *transport.VerifyConfig
	// Sat: does the identity satisfy the policy (possession judged separately)?
	Sat func(id ident, forServer bool) bool
}

func policies() []policy {
	nameOf := func(e *env, forServer bool) certs.Name {
		if forServer {
			return e.name
		}
		return certs.Name{}
	}
	ak := func(k keys.DHPublicKey) *authkeys.SyncAuthKeySet {
		s := authkeys.NewSyncAuthKeySet()
		s.AddKey(k)
		return s
	}
	return []policy{
		{"ca-store", func(e *env, k keys.DHPublicKey, fs bool) *transport.VerifyConfig {
			return &transport.VerifyConfig{Store: e.ca.Store(), Name: nameOf(e, fs), CurrentTime: e.now}
		}, func(id ident, fs bool) bool { return id.ChainOK && id.NameOK }},
		{"authorized-keys", func(e *env, k keys.DHPublicKey, fs bool) *transport.VerifyConfig {
			return &transport.VerifyConfig{AuthKeys: ak(k), AuthKeysAllowed: true, Name: nameOf(e, fs), CurrentTime: e.now}
		}, func(id ident, fs bool) bool { return id.LeafFormat && id.NameOK && id.CertKey == expectKey }},
		{"both", func(e *env, k keys.DHPublicKey, fs bool) *transport.VerifyConfig {
			return &transport.VerifyConfig{Store: e.ca.Store(), AuthKeys: ak(k), AuthKeysAllowed: true, Name: nameOf(e, fs), CurrentTime: e.now}
		}, func(id ident, fs bool) bool {
			return (id.ChainOK && id.NameOK) || (id.LeafFormat && id.NameOK && id.CertKey == expectKey)
		}},
		{"authorized-keys-after-removal", func(e *env, k keys.DHPublicKey, fs bool) *transport.VerifyConfig {
			// history: the key was authorized once and has been removed again (the life cycle of a
			// consumed delegate key); some unrelated key is still in the set
			set := ak(k)
			set.RemoveKey(k)
			set.AddKey(keys.GenerateNewX25519KeyPair().Public)
			return &transport.VerifyConfig{AuthKeys: set, AuthKeysAllowed: true, Name: nameOf(e, fs), CurrentTime: e.now}
		}, func(id ident, fs bool) bool { return false }},
		{"skip-verify+callback", func(e *env, k keys.DHPublicKey, fs bool) *transport.VerifyConfig {
			return &transport.VerifyConfig{InsecureSkipVerify: true, Name: nameOf(e, fs), CurrentTime: e.now,
				AddVerifyCallback: func(c *certs.Certificate) error {
					if c.PublicKey != k {
						return fmt.Errorf("callback: key not acceptable")
					}
					return nil
				}}
		}, func(id ident, fs bool) bool { return id.CertKey == expectKey }},
		{"skip-verify", func(e *env, k keys.DHPublicKey, fs bool) *transport.VerifyConfig {
			return &transport.VerifyConfig{InsecureSkipVerify: true, Name: nameOf(e, fs), CurrentTime: e.now}
		}, func(id ident, fs bool) bool { return true }},
	}
}

var expectKey keys.DHPublicKey // the authorized key (the victim's)

type scenario struct {
	Hidden    bool   `json:"hidden"`
	ImpServer bool   `json:"impostor_is_server"` // direction: true = honest client vs configured server
	Ident     int    `json:"ident"`
	Policy    int    `json:"policy"`
	Fault     *fault `json:"fault,omitempty"`
}

type fault struct {
	Type byte `json:"msg_type"`
	Off  int  `json:"off_from_end"` // offset measured from the end (MAC/tag fields sit at the end)
	Mask byte `json:"mask"`
}

func (s scenario) key(ids []ident, ps []policy) string {
	m, d := "disc", "client-counterpart"
	if s.Hidden {
		m = "hidden"
	}
	if s.ImpServer {
		d = "server-counterpart"
	}
	k := fmt.Sprintf("%s:%s:%s:%s", d, ids[s.Ident].Kind, m, ps[s.Policy].Name)
	if s.Fault != nil {
		k += fmt.Sprintf(":fault(t=%d,end-%d)", s.Fault.Type, s.Fault.Off)
	}
	return k
}

type result struct {
	clientOK       bool
	clientErr      string
	offered        bool
	dataDelivered  bool
	serverSessions int
}

func runScenario(e *env, s scenario, ids []ident, ps []policy) (result, error) {
	var res result
	id := ids[s.Ident]
	pol := ps[s.Policy]
	w := fix.NewWorld()
	defer w.Close()
	saddr := simnet.Addr("10.0.0.1", 77)
	var scfg transport.ServerConfig
	var ccfg transport.ClientConfig
	honestCli := keys.GenerateNewX25519KeyPair()
	honestSrv := keys.GenerateNewX25519KeyPair()
	if s.ImpServer {
		// configured (possibly impostor) server, honest client applying the policy
		scfg = transport.ServerConfig{KeyPair: id.Key, KEMKeyPair: e.kem, Certificate: id.Leaf, Intermediate: id.Inter,
			ClientVerify: &transport.VerifyConfig{InsecureSkipVerify: true}}
		ccfg = transport.ClientConfig{Exchanger: honestCli, Leaf: e.ca.LeafFor(honestCli.Public, certs.RawStringName("c")), Intermediate: e.ca.Inter,
			Verify: *pol.Make(e, expectKey, true)}
	} else {
		// honest server applying the policy to clients, configured (possibly impostor) client
		scfg = transport.ServerConfig{KeyPair: honestSrv, KEMKeyPair: e.kem, Certificate: e.ca.LeafFor(honestSrv.Public, e.name), Intermediate: e.ca.Inter,
			ClientVerify: pol.Make(e, expectKey, false)}
		ccfg = transport.ClientConfig{Exchanger: id.Key, Leaf: id.Leaf, Intermediate: id.Inter,
			Verify: transport.VerifyConfig{Store: e.ca.Store(), Name: e.name}}
	}
	if s.Hidden {
		pk := e.kem.Public
		ccfg.ServerKEMKey = &pk
	}
	srv, err := w.StartServer(scfg, saddr)
	if err != nil {
		return res, nil // configuration refused at start-up: nothing completes
	}
	cl := w.NewClient(ccfg, simnet.Addr("10.0.0.2", 4000), saddr)
	cl.Start()
	applied := false
	if err := w.Pump(func(ord int, d *simnet.Datagram) []*simnet.Datagram {
		if s.Fault == nil || applied || d.Data[0] != s.Fault.Type || s.Fault.Off >= len(d.Data) {
			return nil
		}
		applied = true
		c := d.Clone()
		c.Data[len(c.Data)-1-s.Fault.Off] ^= s.Fault.Mask
		return []*simnet.Datagram{c}
	}); err != nil {
		return res, err
	}
	res.clientOK = cl.Completed()
	if _, e := cl.Result(); e != nil {
		res.clientErr = e.Error()
	}
	for _, x := range srv.S.VerifSessions() {
		if x.Established {
			res.serverSessions++
		}
	}
	h := srv.Accept()
	res.offered = h != nil
	if res.clientOK {
		// the counterpart believes it is connected: let it talk, see whether the server delivers
		if err := cl.C.WriteMsg([]byte("application-data")); err == nil {
			if err := w.Pump(nil); err != nil {
				return res, err
			}
		}
	}
	if h != nil && h.VerifRecvLen() > 0 {
		buf := make([]byte, 64)
		if n, err := h.ReadMsg(buf); err == nil && n > 0 {
			res.dataDelivered = true
		}
	}
	return res, nil
}

func judge(r *vk.Run, e *env, s scenario, ids []ident, ps []policy, res result) {
	id := ids[s.Ident]
	pol := ps[s.Policy]
	k := s.key(ids, ps)
	legit := pol.Sat(id, s.ImpServer) && id.HoldsKey
	tampered := s.Fault != nil
	// a corrupted datagram is judged at its receiver only
	tamperedToClient := tampered && !toServer(s.Fault.Type)
	tamperedToServer := tampered && toServer(s.Fault.Type)
	if tamperedToServer && res.offered {
		r.Violation(k+":offered", "server offered a connection although a MAC/tag field of the client's handshake message was corrupted in flight", s)
	}
	if s.ImpServer {
		if res.clientOK && (!legit || tamperedToClient) {
			why := "the server's chain does not satisfy the client's trust configuration"
			if pol.Sat(id, true) && !id.HoldsKey {
				why = "the server never proved possession of the certified private key"
			}
			if legit && tamperedToClient {
				why = "a MAC/tag field of a handshake message was corrupted in flight"
			}
			r.Violation(k, fmt.Sprintf("Client.Handshake() returned nil although %s (counterpart %s, policy %s, hidden=%v)", why, id.Kind, pol.Name, s.Hidden), s)
		}
	} else {
		if !legit {
			if !s.Hidden && res.offered {
				r.Violation(k+":offered", fmt.Sprintf("discoverable server offered a connection for a client that does not satisfy policy %s / did not prove its key (counterpart %s)", pol.Name, id.Kind), s)
			}
			if res.dataDelivered {
				r.Violation(k+":data", fmt.Sprintf("server delivered application data from a client that does not satisfy policy %s / did not prove its key (counterpart %s, hidden=%v)", pol.Name, id.Kind, s.Hidden), s)
			}
		}
	}
	r.Distinct(fmt.Sprintf("%s|%v|%v|%v", k, res.clientOK, res.offered, res.dataDelivered))
}

func toServer(t byte) bool { return t == 1 || t == 3 || t == 5 || t == 8 }

func main() {
	r := vk.New("C01", "fault_enumeration")
	e := newEnv()
	expectKey = e.victim.Public
	ps := policies()
	idsS, idsC := e.idents(true), e.idents(false)
	pick := func(s scenario) []ident {
		if s.ImpServer {
			return idsS
		}
		return idsC
	}
	if r.ReplayFile != "" {
		var s scenario
		if err := r.LoadReplay(&s); err != nil {
			r.EngineError("replay: %v", err)
		} else {
			res, err := runScenario(e, s, pick(s), ps)
			fmt.Printf("result %+v err %v\n", res, err)
			judge(r, e, s, pick(s), ps, res)
		}
		r.Finish()
	}
	r.SetRule("mode {discoverable, hidden} x direction {honest client vs configured server, honest server vs configured client} x counterpart identity (14 kinds: honest; valid certificate + other key; other name; raw instead of dns name; expired; expiring exactly now; not yet valid; untrusted root; untrusted chain with trusted intermediate presented; self-signed; self-signed other key; intermediate omitted; intermediate as leaf; root as leaf) x verification policy {CA store, authorized keys, both, authorized keys after add+remove of the key, skip+additional callback, skip}; thorough: each configuration additionally with one corrupted byte in each MAC/tag position class of each handshake datagram. Oracle (one-directional): completion / offer / data delivery implies policy satisfied and key possessed (from construction metadata). Non-vacuity: the honest counterpart completes under every policy and mode. distinct_nontrivial = distinct (scenario, outcome) classes.")
	var scs []scenario
	for _, hidden := range []bool{false, true} {
		for _, imp := range []bool{true, false} {
			n := len(idsS)
			for i := 0; i < n; i++ {
				for p := range ps {
					scs = append(scs, scenario{Hidden: hidden, ImpServer: imp, Ident: i, Policy: p})
				}
			}
		}
	}
	base := len(scs)
	if r.Thorough() {
		for _, s := range scs[:base] {
			types := []byte{1, 2, 3, 4, 5}
			if s.Hidden {
				types = []byte{8, 9}
			}
			for _, t := range types {
				for _, off := range []int{0, 15, 16, 31, 32} { // last byte / first byte of the final MAC, of the tag before it, and the byte before
					x := s
					x.Fault = &fault{Type: t, Off: off, Mask: 0x01}
					scs = append(scs, x)
				}
			}
		}
	}
	honestOK := map[string]bool{}
	type hk struct{ k string }
	results := make([]result, len(scs))
	r.Parallel(len(scs), func(i int) {
		s := scs[i]
		res, err := runScenario(e, s, pick(s), ps)
		r.Eval()
		if err != nil {
			r.EngineError("%s: %v", s.key(pick(s), ps), err)
			return
		}
		results[i] = res
		judge(r, e, s, pick(s), ps, res)
	})
	// non-vacuity: honest peers complete under every policy / mode / direction
	for i, s := range scs[:base] {
		if pick(s)[s.Ident].Kind != "honest" || ps[s.Policy].Name == "authorized-keys-after-removal" {
			continue // the removal policy admits nobody by construction
		}
		k := s.key(pick(s), ps)
		ok := results[i].clientOK && results[i].offered && results[i].dataDelivered
		honestOK[k] = ok
		if !ok {
			r.Violation(k+":liveness", fmt.Sprintf("honest peers did not complete (client ok=%v err=%q offered=%v data=%v): the check would be vacuous for this policy", results[i].clientOK, results[i].clientErr, results[i].offered, results[i].dataDelivered), s)
		}
		r.Sample(map[string]any{"scenario": k, "client_completed": results[i].clientOK, "offered": results[i].offered, "data_delivered": results[i].dataDelivered})
	}
	r.Set("configurations", base)
	r.Set("with_wire_fault", len(scs)-base)
	r.Set("honest_configurations_completing", len(honestOK))
	r.Assume("counterparts are built from the project's own client/server code with mismatching configuration (no protocol re-implementation); an impostor therefore follows the message format but lacks the certified private key or a valid chain")
	r.Assume("MAC collisions impossible; validity window is [IssuedAt, ExpiresAt)")
	r.Finish()
}
